"""Reflection helpers over ofxtools.models (run natively; never the deciding step).

all_classes()            concrete aggregate classes exported by ofxtools.models (recomputed from the working tree)
base_instance(cls)       (args, kwargs) of a minimal valid instance, found by construction + small search
sample_value(conv)       a valid python value for an element converter
"""
import datetime, decimal, functools, itertools, warnings
import ofxtools
import ofxtools.models
from ofxtools import Types, utils
from ofxtools.models.base import Aggregate, ElementList

UTC = utils.UTC
DT = datetime.datetime(2020, 1, 2, 3, 4, 5, 678000, tzinfo=UTC)
TM = datetime.time(3, 4, 5, 678000, tzinfo=UTC)


def all_classes():
    out = []
    seen = set()
    for name in sorted(dir(ofxtools.models)):
        o = getattr(ofxtools.models, name)
        if isinstance(o, type) and issubclass(o, Aggregate) and o not in (Aggregate, ElementList) and o.__name__ == name:
            if name.isupper() or any(ch.isupper() for ch in name):
                if o not in seen:
                    seen.add(o)
                    out.append(o)
    return out


def class_by_name(name):
    return getattr(ofxtools.models, name)


def all_mutexes(cls, kind):
    """union over the MRO of optionalMutexes / requiredMutexes declared anywhere (what the spec intends)"""
    out = []
    for b in cls.__mro__:
        for m in vars(b).get(kind, []) or []:
            m = tuple(m)
            if m not in out:
                out.append(m)
    return out


def sample_value(conv, alt=0):
    """a valid python value for converter conv (alt selects a second distinct value where possible)"""
    if isinstance(conv, Types.ListElement):
        return sample_value(conv.converter, alt)
    if isinstance(conv, Types.Bool):
        return alt == 0
    if isinstance(conv, Types.OneOf):
        vs = [v for v in conv.valid if v is not None]
        return vs[alt % len(vs)]
    if isinstance(conv, Types.String):
        n = conv.length or 8
        s = "ab"[alt % 2] * 1 if n >= 1 else ""
        return s
    if isinstance(conv, Types.Integer):
        return 1 + (alt % 2)
    if isinstance(conv, Types.Decimal):
        d = decimal.Decimal(1 + (alt % 2))
        if conv.scale is not None:
            d = d.quantize(conv.scale)
        return d
    if isinstance(conv, Types.Time):
        return TM
    if isinstance(conv, Types.DateTime):
        return DT
    raise TypeError(f"no sample for {conv!r}")


_BASE = {}


def _try(cls, args, kwargs):
    with warnings.catch_warnings():
        warnings.simplefilter("ignore")
        return cls(*args, **kwargs)


def _member_for(cls, attr, depth):
    la = cls.listaggregates if not issubclass(cls, ElementList) else {}
    if attr in la:
        a, k = base_instance(la[attr].__type__, depth + 1)
        return _try(la[attr].__type__, a, k)
    conv = (cls.listelements if not issubclass(cls, ElementList) else cls.listaggregates)[attr]
    return sample_value(conv)


def value_for(cls, attr, depth=0, alt=0):
    conv = cls.spec[attr]
    if isinstance(conv, Types.SubAggregate) and not isinstance(conv, Types.ListAggregate):
        a, k = base_instance(conv.__type__, depth + 1)
        return _try(conv.__type__, a, k)
    return sample_value(conv, alt)


def base_instance(cls, depth=0):
    """(args, kwargs) such that cls(*args, **kwargs) is valid and as small as the constraints allow"""
    if cls in _BASE:
        return _BASE[cls]
    if depth > 12:
        raise RecursionError(f"base_instance too deep at {cls.__name__}")
    spec = cls.spec_no_listaggregates
    req = [a for a, c in spec.items() if isinstance(c, Types.Element) and getattr(c, "required", False)]
    opt = [a for a, c in spec.items() if isinstance(c, Types.Element) and not getattr(c, "required", False)]
    kwargs = {a: value_for(cls, a, depth) for a in req}
    for m in all_mutexes(cls, "requiredMutexes"):
        if not any(x in kwargs for x in m):
            for x in m:
                if x in spec and isinstance(spec[x], Types.Element):
                    kwargs[x] = value_for(cls, x, depth)
                    break
    lists = list((cls.listaggregates if not issubclass(cls, ElementList) else {}).keys()) + list(
        (cls.listelements if not issubclass(cls, ElementList) else cls.listaggregates).keys())

    def attempt(extra, members):
        kw = dict(kwargs)
        for a in extra:
            kw[a] = value_for(cls, a, depth)
        args = [_member_for(cls, m, depth) for m in members]
        try:
            _try(cls, args, kw)
            return args, kw
        except Exception:
            return None
    res = attempt((), ())
    if res is None:
        # small search: add up to 3 optional attributes and / or one list member
        for k in range(0, 4):
            for extra in itertools.combinations(opt, k):
                for members in [()] + [(m,) for m in lists]:
                    if k == 0 and not members:
                        continue
                    res = attempt(extra, members)
                    if res is not None:
                        break
                if res is not None:
                    break
            if res is not None:
                break
    if res is None:
        raise ValueError(f"no base instance found for {cls.__name__}")
    _BASE[cls] = res
    return res


def build(cls, args, kwargs):
    return _try(cls, args, kwargs)


def list_attrs(cls):
    """ordered names of the list attributes (ListAggregate / ListElement) of cls"""
    return [a for a, c in cls.spec.items() if isinstance(c, (Types.ListAggregate, Types.ListElement))]


def is_core(cls):
    """classes with a mutex group, a custom validate_args / groom / ungroom, list attributes or a mixin"""
    if all_mutexes(cls, "optionalMutexes") or all_mutexes(cls, "requiredMutexes"):
        return True
    for name in ("validate_args", "groom", "ungroom", "_apply_args"):
        for b in cls.__mro__:
            if b is Aggregate:
                break
            if name in vars(b):
                return True
    if list_attrs(cls):
        return True
    if any(b not in (Aggregate, ElementList, list, object) and not issubclass(b, Aggregate) for b in cls.__mro__[1:]):
        return True
    return False


def pick_classes(tier, seed, core_only=False, frac=10):
    import random
    cs = all_classes()
    if tier != "quick":
        return cs
    core = [c for c in cs if is_core(c)]
    rest = [c for c in cs if c not in core]
    rnd = random.Random(seed)
    rnd.shuffle(rest)
    extra = [] if core_only else rest[: max(1, len(rest) // frac)]
    return core + extra


_WIRE = {}


def wire_tags(cls):
    """{attr: tag on the wire} for cls, taking ungroom() renames into account (e.g. MAIL.frm -> FROM)"""
    if cls not in _WIRE:
        import xml.etree.ElementTree as ET
        m = {}
        for a in cls.spec:
            root = ET.Element(cls.__name__)
            ET.SubElement(root, a.upper())
            try:
                out = cls.ungroom(root)
                m[a] = out[0].tag
            except Exception:
                m[a] = a.upper()
        _WIRE[cls] = m
    return _WIRE[cls]


def wire_tag(cls, attr):
    return wire_tags(cls)[attr]


def attr_of_tag(cls, tag):
    for a, t in wire_tags(cls).items():
        if t == tag:
            return a
    return None


_WITH = {}


def kwargs_with(cls, attr):
    """(args, kwargs) of a valid instance of cls that holds child `attr` (sample value), or None.
    Search: required children + one member of each exactly-one group (all choices) + attr, then up to two
    optional companions (custom validate_args rules such as 'X requires Y')."""
    key = (cls, attr)
    if key in _WITH:
        return _WITH[key]
    spec = cls.spec_no_listaggregates
    req = [a for a, c in spec.items() if isinstance(c, Types.Element) and getattr(c, "required", False)]
    opt = [a for a, c in spec.items() if isinstance(c, Types.Element) and not getattr(c, "required", False) and a != attr]
    groups = [[m for m in g if m in spec] for g in all_mutexes(cls, "requiredMutexes")]
    groups = [g for g in groups if g]
    choices = []
    for g in groups:
        choices.append([attr] if attr in g else g)
    base_args, _ = base_instance(cls)
    lists = list_attrs(cls)
    res = None
    tried = 0
    for combo in itertools.islice(itertools.product(*choices) if choices else [()], 60):
        core = {a: None for a in req}
        for m in combo:
            core[m] = None
        core[attr] = None
        for k in range(0, 3):
            for extra in itertools.combinations(opt, k):
                if any(any(e in g and m in g and e != m for g in all_mutexes(cls, "optionalMutexes")) for e in extra for m in core):
                    continue
                names = list(core) + list(extra)
                for args in ([base_args] if base_args else [[]]) + ([[]] if base_args else []) + [[_member_for(cls, l, 0)] for l in lists[:3] if not base_args]:
                    tried += 1
                    if tried > 4000:
                        break
                    try:
                        kw = {a: value_for(cls, a) for a in names}
                        _try(cls, args, kw)
                        res = (list(args), kw)
                        break
                    except Exception:
                        continue
                if res or tried > 4000:
                    break
            if res or tried > 4000:
                break
        if res or tried > 4000:
            break
    _WITH[key] = res
    return res


def defined_classes():
    """every concrete aggregate class *defined* in the ofxtools.models sub-modules (whether or not the package exports it)"""
    out, seen, todo = [], set(), [Aggregate]
    while todo:
        c = todo.pop()
        for sub in c.__subclasses__():
            if sub in seen:
                continue
            seen.add(sub)
            todo.append(sub)
            if (sub.__module__ or "").startswith("ofxtools.models") and sub.__name__.isupper() and sub not in (Aggregate, ElementList):
                out.append(sub)
    return sorted(out, key=lambda c: c.__name__)


def renamed_attrs(cls):
    """attributes whose wire tag differs from the upper-cased attribute name (groom / ungroom renames)"""
    return [a for a, t in wire_tags(cls).items() if t != a.upper()]


def container_of(M):
    """a class that declares M as a list member (or None)"""
    for K in all_classes():
        if issubclass(K, ElementList):
            continue
        for a, c in K.listaggregates.items():
            if c.__type__ is M:
                return K, a
    return None


_CHAINS = {}


def chains_from_root():
    """for every model class reachable from OFX: the shortest chain [(parent class, attribute, is list member, child class), ...]
    leading from the document root to it (breadth-first over declared sub-aggregates and list members)"""
    if _CHAINS:
        return _CHAINS
    root = getattr(ofxtools.models, "OFX")
    _CHAINS[root] = []
    queue = [root]
    while queue:
        P = queue.pop(0)
        for a, c in P.spec.items():
            if isinstance(c, Types.ListAggregate):
                child, lst = c.__type__, True
            elif isinstance(c, Types.SubAggregate):
                child, lst = c.__type__, False
            else:
                continue
            if isinstance(child, type) and child not in _CHAINS:
                _CHAINS[child] = _CHAINS[P] + [(P, a, lst, child)]
                queue.append(child)
    return _CHAINS


def document_holding(inst):
    """a whole document (OFX instance) holding `inst` at the end of its class's chain from the root, or None"""
    chain = chains_from_root().get(type(inst))
    if chain is None:
        return None
    cur = inst
    for P, a, lst, child in reversed(chain):
        if lst:
            a0, k0 = base_instance(P)
            cands = [([cur], k0), (list(a0) + [cur], k0)]
        else:
            found = kwargs_with(P, a)
            if found is None:
                return None
            a0, k0 = found
            cands = [(a0, dict(k0, **{a: cur}))]
        nxt = None
        for args, kw in cands:
            try:
                nxt = build(P, args, kw)
                break
            except Exception:
                nxt = None
        if nxt is None:
            return None
        cur = nxt
    return cur
