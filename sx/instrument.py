"""sx instrumentation: rewrite a function's source so every operation goes through sx.rt."""
import ast, inspect, textwrap, types, sys, copy, hashlib
from .core import Unsupported

_OPN = {ast.Add: '+', ast.Sub: '-', ast.Mult: '*', ast.FloorDiv: '//', ast.Mod: '%', ast.Pow: '**', ast.Div: '/',
        ast.BitOr: '|', ast.BitAnd: '&', ast.BitXor: '^', ast.LShift: '<<', ast.RShift: '>>', ast.MatMult: '@'}
_CMPN = {ast.Eq: '==', ast.NotEq: '!=', ast.Lt: '<', ast.LtE: '<=', ast.Gt: '>', ast.GtE: '>=', ast.In: 'in',
         ast.NotIn: 'notin', ast.Is: 'is', ast.IsNot: 'isnot'}
NO_REWRITE_CALLS = {'locals', 'globals', 'vars', 'super', 'eval', 'exec', 'dir'}


def _sx(name):
    return ast.Attribute(ast.Name('__sx', ast.Load()), name, ast.Load())


def _lam(e):
    return ast.Lambda(ast.arguments(posonlyargs=[], args=[], kwonlyargs=[], kw_defaults=[], defaults=[]), e)


class T(ast.NodeTransformer):
    def __init__(self, firstarg):
        self.firstarg = firstarg
        self.tmp = 0

    def visit_BinOp(self, n):
        self.generic_visit(n)
        if type(n.op) not in _OPN:
            return n
        return ast.Call(_sx('binop'), [ast.Constant(_OPN[type(n.op)]), n.left, n.right], [])

    def visit_AugAssign(self, n):
        self.generic_visit(n)
        if type(n.op) not in _OPN:
            return n
        load = copy.deepcopy(n.target)
        load.ctx = ast.Load()
        if isinstance(load, ast.Attribute):
            load = ast.Call(_sx('getattr_'), [load.value, ast.Constant(load.attr)], [])
        elif isinstance(load, ast.Subscript):
            load = ast.Call(_sx('subscript'), [load.value, load.slice], [])
        val = ast.Call(_sx('binop'), [ast.Constant(_OPN[type(n.op)]), load, n.value], [])
        return self._assign_to(n.target, val)

    def _assign_to(self, target, val):
        if isinstance(target, ast.Attribute):
            return ast.Expr(ast.Call(_sx('setattr_'), [target.value, ast.Constant(target.attr), val], []))
        if isinstance(target, ast.Subscript):
            return ast.Expr(ast.Call(_sx('store_subscript'), [target.value, target.slice, val], []))
        return ast.Assign([target], val)

    def visit_Assign(self, n):
        self.generic_visit(n)
        if len(n.targets) == 1 and isinstance(n.targets[0], (ast.Attribute, ast.Subscript)):
            return self._assign_to(n.targets[0], n.value)
        return n

    def visit_AnnAssign(self, n):
        self.generic_visit(n)
        if n.value is None:
            return n
        if isinstance(n.target, (ast.Attribute, ast.Subscript)):
            return self._assign_to(n.target, n.value)
        return ast.Assign([n.target], n.value)

    def visit_Compare(self, n):
        self.generic_visit(n)
        if len(n.ops) == 1:
            return ast.Call(_sx('compare'), [ast.Constant(_CMPN[type(n.ops[0])]), n.left, n.comparators[0]], [])
        # a < b < c  ->  and_(lambda: a<b, lambda: b<c)   (middle operands must be side-effect free names/constants)
        operands = [n.left] + n.comparators
        for m in operands[1:-1]:
            if not isinstance(m, (ast.Name, ast.Constant)):
                raise Unsupported("chained comparison with complex middle operand")
        parts = []
        for i, op in enumerate(n.ops):
            parts.append(_lam(ast.Call(_sx('compare'), [ast.Constant(_CMPN[type(op)]), copy.deepcopy(operands[i]), copy.deepcopy(operands[i + 1])], [])))
        return ast.Call(_sx('and_'), parts, [])

    def visit_BoolOp(self, n):
        has_walrus = any(isinstance(x, ast.NamedExpr) for v in n.values for x in ast.walk(v))
        self.generic_visit(n)
        if has_walrus:
            # an assignment expression inside a lambda would bind in the lambda: short-circuit through conditional expressions
            # instead (A and B == B if truth(t := A) else t ; A or B == t if truth(t := A) else B), right-folded
            self._tmp = getattr(self, "_tmp", 0)
            acc = n.values[-1]
            for v in reversed(n.values[:-1]):
                self._tmp += 1
                t = f"__sx_bo{self._tmp}"
                test = self._t(ast.NamedExpr(ast.Name(t, ast.Store()), v))
                if isinstance(n.op, ast.And):
                    acc = ast.IfExp(test, acc, ast.Name(t, ast.Load()))
                else:
                    acc = ast.IfExp(test, ast.Name(t, ast.Load()), acc)
            return acc
        return ast.Call(_sx('and_' if isinstance(n.op, ast.And) else 'or_'), [_lam(v) for v in n.values], [])

    def visit_UnaryOp(self, n):
        self.generic_visit(n)
        if isinstance(n.op, ast.Not):
            return ast.Call(_sx('not_'), [n.operand], [])
        if isinstance(n.op, ast.USub):
            if isinstance(n.operand, ast.Constant):
                return n
            return ast.Call(_sx('unary'), [ast.Constant('-'), n.operand], [])
        return n

    def _t(self, e):
        return ast.Call(_sx('truth'), [e], [])

    def visit_If(self, n):
        self.generic_visit(n)
        n.test = self._t(n.test)
        return n

    def visit_IfExp(self, n):
        self.generic_visit(n)
        n.test = self._t(n.test)
        return n

    def visit_While(self, n):
        self.generic_visit(n)
        n.test = self._t(n.test)
        return n

    def visit_Assert(self, n):
        self.generic_visit(n)
        n.test = self._t(n.test)
        return n

    def visit_Call(self, n):
        if isinstance(n.func, ast.Name) and n.func.id == 'super' and not n.args:
            return ast.Call(_sx('super_'), [ast.Name('__sx_cls', ast.Load()), ast.Name(self.firstarg, ast.Load())], [])
        if isinstance(n.func, ast.Name) and n.func.id in NO_REWRITE_CALLS:
            self.generic_visit(n)
            return n
        self.generic_visit(n)
        return ast.Call(_sx('call'), [n.func] + n.args, n.keywords)

    def visit_Attribute(self, n):
        self.generic_visit(n)
        if isinstance(n.ctx, ast.Load):
            return ast.Call(_sx('getattr_'), [n.value, ast.Constant(n.attr)], [])
        return n

    def visit_Subscript(self, n):
        self.generic_visit(n)
        if isinstance(n.ctx, ast.Load):
            return ast.Call(_sx('subscript'), [n.value, n.slice], [])
        return n

    def visit_JoinedStr(self, n):
        parts = []
        for v in n.values:
            if isinstance(v, ast.Constant):
                parts.append(v)
            else:
                val = self.visit(v.value)
                spec = ast.Constant('')
                if v.format_spec is not None:
                    if all(isinstance(x, ast.Constant) for x in v.format_spec.values):
                        spec = ast.Constant("".join(x.value for x in v.format_spec.values))
                    else:
                        spec = self.visit(v.format_spec)
                parts.append(ast.Tuple([val, ast.Constant(v.conversion), spec], ast.Load()))
        return ast.Call(_sx('fstr'), parts, [])

    def visit_For(self, n):
        self.generic_visit(n)
        n.iter = ast.Call(_sx('sx_iter'), [n.iter], [])
        return n

    def visit_comprehension(self, n):
        self.generic_visit(n)
        n.iter = ast.Call(_sx('sx_iter'), [n.iter], [])
        n.ifs = [self._t(i) for i in n.ifs]
        return n

    def visit_Dict(self, n):
        self.generic_visit(n)
        if all(isinstance(k, ast.Constant) for k in n.keys if k is not None):
            return n
        if any(k is None for k in n.keys):
            return n          # {**a, k: v}: left to python (keys of a spread mapping are already de-duplicated)
        pairs = ast.List([ast.Tuple([k, v], ast.Load()) for k, v in zip(n.keys, n.values)], ast.Load())
        return ast.Call(_sx('mk_dict'), [pairs], [])

    def visit_DictComp(self, n):
        self.generic_visit(n)
        lc = ast.ListComp(ast.Tuple([n.key, n.value], ast.Load()), n.generators)
        return ast.Call(_sx('mk_dict'), [lc], [])

    def visit_SetComp(self, n):
        self.generic_visit(n)
        return ast.Call(_sx('mk_set'), [ast.ListComp(n.elt, n.generators)], [])

    def visit_Set(self, n):
        self.generic_visit(n)
        if all(isinstance(e, ast.Constant) for e in n.elts):
            return n
        return ast.Call(_sx('mk_set'), [ast.List(n.elts, ast.Load())], [])

    def visit_Starred(self, n):
        self.generic_visit(n)
        if isinstance(n.ctx, ast.Load):
            n.value = ast.Call(_sx('sx_iter'), [n.value], [])
        return n

    def visit_FunctionDef(self, n):
        n.decorator_list = [d for d in n.decorator_list if _keep_decorator(d)] if self.tmp else []
        self.tmp += 1
        # annotations are not evaluated symbolically
        n.returns = None
        for a in n.args.args + n.args.kwonlyargs + n.args.posonlyargs:
            a.annotation = None
        if n.args.vararg:
            n.args.vararg.annotation = None
        if n.args.kwarg:
            n.args.kwarg.annotation = None
        self.generic_visit(n)
        self.tmp -= 1
        return n


def _keep_decorator(d):
    return True


_MODULE_NS = {}     # module name -> the one globals dict shared by all instrumented functions of that module
NS_OVERRIDES = {}   # (module name, global name) -> value   (environment stubs for module globals)


def module_ns(f):
    from . import rt
    name = f.__module__
    ns = _MODULE_NS.get(name)
    if ns is None:
        ns = dict(f.__globals__)
        ns['__sx'] = rt
        for (m, k), v in NS_OVERRIDES.items():
            if m == name:
                ns[k] = v
        _MODULE_NS[name] = ns
    return ns


def set_global(modname, name, value):
    NS_OVERRIDES[(modname, name)] = value
    ns = _MODULE_NS.get(modname)
    if ns is not None:
        ns[name] = value


def unset_global(modname, name):
    NS_OVERRIDES.pop((modname, name), None)
    ns = _MODULE_NS.get(modname)
    if ns is not None:
        mod = sys.modules.get(modname)
        if mod is not None and hasattr(mod, name):
            ns[name] = getattr(mod, name)
        else:
            ns.pop(name, None)


_cache = {}
INSTRUMENTED_LOG = {}   # qualname -> sha1 of the source text instrumented on this run
FAILED = {}


def defining_class(f):
    mod = sys.modules.get(f.__module__)
    parts = f.__qualname__.split('.')
    if len(parts) < 2 or '<locals>' in parts:
        return None
    o = mod
    for p in parts[:-1]:
        o = getattr(o, p, None)
    return o if isinstance(o, type) else None


def instrumented(f):
    """Instrumented twin of python function f, or None when f is to be called natively."""
    from . import rt
    if not isinstance(f, types.FunctionType):
        return None
    co = f.__code__
    if co.co_filename.startswith('<sx:'):
        return f
    g = _cache.get(f)
    if g is not None:
        return g
    if f in FAILED:
        return None
    mod = getattr(f, '__module__', '') or ''
    if not (rt._is_ofx_mod(mod) or mod in rt.INSTRUMENT_MODULES):
        return None
    if f.__name__ == '<lambda>':
        src = _lambda_source(f)
        if src is None:
            FAILED[f] = "lambda source"
            return None
    else:
        try:
            src = textwrap.dedent(inspect.getsource(f))
        except (OSError, TypeError):
            FAILED[f] = "no source"
            return None
    try:
        tree = ast.parse(src)
    except SyntaxError:
        FAILED[f] = "syntax"
        return None
    fd = tree.body[0]
    if not isinstance(fd, (ast.FunctionDef,)):
        FAILED[f] = "not a def"
        return None
    if fd.name != f.__name__:
        FAILED[f] = "name mismatch"
        return None
    firstarg = fd.args.args[0].arg if fd.args.args else (fd.args.posonlyargs[0].arg if fd.args.posonlyargs else None)
    tree = T(firstarg).visit(tree)
    freevars = tuple(v for v in co.co_freevars if v != '__class__')
    # def __sx_factory(__sx_cls, <free variables>): def f(...): ...; return f      (rebuilds the closure; __sx_cls is
    # the defining class for the rewritten zero-argument super())
    fac = ast.FunctionDef(name='__sx_factory',
                          args=ast.arguments(posonlyargs=[], args=[ast.arg('__sx_cls')] + [ast.arg(v) for v in freevars], kwonlyargs=[],
                                             kw_defaults=[], defaults=[]),
                          body=[tree.body[0], ast.Return(ast.Name(f.__name__, ast.Load()))], decorator_list=[],
                          type_params=[])
    tree = ast.Module([fac], [])
    ast.fix_missing_locations(tree)
    ns = module_ns(f)
    local = {}
    # a module loaded by harness.common.optimized_copy stands for the library as `python -O` runs it: assert statements
    # are compiled away (the instrumenter leaves them as Assert nodes), __debug__ is False
    opt = 1 if f.__globals__.get('__sx_optimize__') else -1
    exec(compile(tree, f"<sx:{f.__module__}.{f.__qualname__}>", 'exec', optimize=opt), ns, local)
    try:
        cells = [c.cell_contents for v, c in zip(co.co_freevars, f.__closure__ or ()) if v != '__class__']
    except ValueError:
        FAILED[f] = "empty cell"
        return None
    g = local['__sx_factory'](defining_class(f), *cells)
    if f.__defaults__:
        g.__defaults__ = f.__defaults__
    if f.__kwdefaults__:
        g.__kwdefaults__ = dict(f.__kwdefaults__)
    g.__sx_original__ = f
    _cache[f] = g
    INSTRUMENTED_LOG[f"{f.__module__}.{f.__qualname__}"] = hashlib.sha1(src.encode()).hexdigest()[:12]
    return g


def _lambda_source(f):
    """Re-create 'def <lambda>(args): return body' for a lambda by locating it in its source line."""
    try:
        lines, start = inspect.getsourcelines(f)
    except (OSError, TypeError):
        return None
    src = textwrap.dedent("".join(lines))
    try:
        tree = ast.parse(src)
    except SyntaxError:
        try:
            tree = ast.parse("(" + src.strip().rstrip(',') + ")")
        except SyntaxError:
            return None
    lams = [n for n in ast.walk(tree) if isinstance(n, ast.Lambda)]
    want = f.__code__.co_varnames[:f.__code__.co_argcount]
    lams = [l for l in lams if tuple(a.arg for a in l.args.args) == tuple(want)]
    if len(lams) != 1:
        return None
    lam = lams[0]
    fd = ast.FunctionDef(name='<lambda>', args=lam.args, body=[ast.Return(lam.body)], decorator_list=[], type_params=[])
    return None  # lambdas are executed natively unless defined inside instrumented code


def reset():
    _MODULE_NS.clear()
    _cache.clear()
    INSTRUMENTED_LOG.clear()
    FAILED.clear()


_OPT_COPIES = {}


def optimized_copy(mod):
    """The module as `python -O` / PYTHONOPTIMIZE=1 would load it (assert statements compiled away, __debug__ False),
    built from the current source file.  Registered as <name>__O so that the instrumenter treats it as library code
    and keeps its globals apart from the regular module's."""
    import sys, types
    key = mod.__name__
    m = _OPT_COPIES.get(key)
    if m is None:
        src = open(mod.__file__, encoding="utf-8").read()
        m = types.ModuleType(mod.__name__ + "__O")
        m.__file__ = mod.__file__
        m.__package__ = mod.__package__
        m.__dict__['__sx_optimize__'] = 1
        sys.modules[m.__name__] = m
        exec(compile(src, mod.__file__, 'exec', optimize=1), m.__dict__)
        _OPT_COPIES[key] = m
    return m
