"""Models of datetime / time / timedelta / tzinfo values with symbolic fields.

A SymDT is a civil date-time given by field terms (y, mo, d, H, M, S, us) and/or a linear epoch term
(microseconds since 0001-01-01 of the *local* civil time), plus a tz (None | real tzinfo | SymTz).
Inverse conversions (fields of `value + delta`) are fresh variables constrained relationally; their values
under the cached path model are computed in Python, so no feasibility query is needed (DESIGN 2.1 rule ii).
"""
import datetime, math
import z3
from .. import rt, core
from ..core import Sym, SymInt, SymBool, SymStr, Unsupported, pytype
from ..rt import E, iterm

US = 1000000
DAY_US = 86400 * US
_EPOCH0 = datetime.datetime(1, 1, 1)


def dfc(y, m, d):
    """days from civil (proleptic Gregorian), days since 0001-01-01 == ordinal - 1; z3 terms or ints"""
    if all(isinstance(v, int) for v in (y, m, d)):
        return datetime.date(y, m, d).toordinal() - 1
    y2 = z3.If(m <= 2, y - 1, y)
    era = y2 / 400
    yoe = y2 - era * 400
    mp = z3.If(m > 2, m - 3, m + 9)
    doy = (153 * mp + 2) / 5 + d - 1
    doe = yoe * 365 + yoe / 4 - yoe / 100 + doy
    return era * 146097 + doe - 719468 + 719162


def dim(y, m):
    leap = z3.And(y % 4 == 0, z3.Or(y % 100 != 0, y % 400 == 0))
    return z3.If(m == 2, z3.If(leap, 29, 28), z3.If(z3.Or(m == 4, m == 6, m == 9, m == 11), 30, 31))


def T(v):
    if isinstance(v, z3.ExprRef):
        return v
    return iterm(v)


_FIELD_MEMO = {}
rt.PATH_RESET_HOOKS.append(_FIELD_MEMO.clear)


class FixedTz(datetime.tzinfo):
    """concrete tzinfo with a fixed offset (whole minutes) and an arbitrary (possibly None) name"""

    def __init__(self, minutes, name):
        self.minutes, self.name = minutes, name

    def utcoffset(self, dt):
        return datetime.timedelta(minutes=self.minutes)

    def tzname(self, dt):
        return self.name

    def dst(self, dt):
        return None

    def __repr__(self):
        return f"FixedTz({self.minutes},{self.name!r})"

    def __eq__(self, o):
        return isinstance(o, FixedTz) and (o.minutes, o.name) == (self.minutes, self.name)

    def __hash__(self):
        return hash((self.minutes, self.name))

    def __reduce__(self):
        return (FixedTz, (self.minutes, self.name))


class SymTD(Sym):
    pytype = datetime.timedelta

    def __init__(self, us, mins=None):
        self.us = us
        self.mins = mins    # exact whole-minute term when known

    def __repr__(self):
        return f"SymTD({self.us})"


class SymTz(Sym):
    pytype = datetime.tzinfo

    def __init__(self, off_min, name):
        self.off_min, self.name = off_min, name


def _fresh_fields(kind, total, lo_year=1, hi_year=9999, date=True):
    """fresh civil fields whose linear value equals `total`; model extended by computing the values in Python"""
    eng = E()
    total = z3.simplify(total)
    mk = (total.get_id(), date)
    hit = _FIELD_MEMO.get(mk)
    if hit is not None:
        return hit[1]           # the same instant decomposed again on this path: identical field variables
    if date:
        names = ("y", "mo", "d", "H", "M", "S", "us")
    else:
        names = ("H", "M", "S", "us")
    vs = [eng.fresh(n) for n in names]
    if date:
        y, mo, d, H, M, S, us = vs
        eng.lemma(z3.And(y >= lo_year, y <= hi_year, mo >= 1, mo <= 12, d >= 1, d <= dim(y, mo), H >= 0, H <= 23,
                         M >= 0, M <= 59, S >= 0, S <= 59, us >= 0, us < US))
        eng.lemma(((dfc(y, mo, d) * 24 + H) * 60 + M) * 60 * US + S * US + us == total)
    else:
        H, M, S, us = vs
        eng.lemma(z3.And(H >= 0, H <= 23, M >= 0, M <= 59, S >= 0, S <= 59, us >= 0, us < US))
        eng.lemma(((H * 60 + M) * 60 + S) * US + us == total)
    for v, (lo, hi) in zip(vs, ([(lo_year, hi_year), (1, 12), (1, 31)] if date else []) + [(0, 23), (0, 59), (0, 59), (0, US - 1)]):
        eng.set_bounds(v, lo, hi)
    if eng.model is not None:
        try:
            tv = eng.model.eval(total, model_completion=True).as_long()
            if date:
                dtv = _EPOCH0 + datetime.timedelta(microseconds=tv)
                vals = (dtv.year, dtv.month, dtv.day, dtv.hour, dtv.minute, dtv.second, dtv.microsecond)
            else:
                s, usv = divmod(tv, US)
                m_, sv = divmod(s, 60)
                hv, mv = divmod(m_, 60)
                vals = (hv, mv, sv, usv)
            for v, val in zip(vs, vals):
                eng.model.update_value(v, z3.IntVal(val))
        except (OverflowError, z3.Z3Exception, AttributeError):
            eng.model = None
    _FIELD_MEMO[mk] = (total, tuple(vs))
    return tuple(vs)


class SymDT(Sym):
    pytype = datetime.datetime

    def __init__(self, fields=None, epoch=None, tz=None, fold=0):
        # fold (PEP 495) is concrete; like python, results of arithmetic carry fold 0
        self._f, self._e, self.tz, self.fold = fields, epoch, tz, fold

    def epoch(self):
        if self._e is None:
            y, mo, d, H, M, S, us = self._f
            self._e = ((dfc(y, mo, d) * 24 + H) * 60 + M) * 60 * US + S * US + us
        return self._e

    def fields(self):
        if self._f is None:
            e = self._e
            eng = E()
            lo, hi = 0, (dfc(9999, 12, 31) + 1) * DAY_US - 1      # datetime.min .. datetime.max
            if not eng.branch(z3.And(e >= lo, e <= hi)):
                raise OverflowError("date value out of range")
            self._f = _fresh_fields("dt", e)
        return self._f

    def __repr__(self):
        return "SymDT"


class SymTime(Sym):
    pytype = datetime.time

    def __init__(self, fields, tz=None):
        self._f, self.tz = fields, tz

    def tod(self):
        H, M, S, us = self._f
        return ((H * 60 + M) * 60 + S) * US + us


# ---------------------------------------------------------------- constructors
def _chk(cond, msg):
    if not rt.decide(z3.simplify(cond) if not isinstance(cond, bool) else cond):
        raise ValueError(msg)


def mk_datetime(year, month=None, day=None, hour=0, minute=0, second=0, microsecond=0, tzinfo=None, *, fold=0):
    if month is None or day is None:
        raise TypeError("function missing required argument")
    y, mo, d, H, M, S, us = map(T, (year, month, day, hour, minute, second, microsecond))
    _chk(z3.And(y >= 1, y <= 9999), "year out of range")
    _chk(z3.And(mo >= 1, mo <= 12), "month must be in 1..12")
    _chk(z3.And(d >= 1, d <= dim(y, mo)), "day is out of range for month")
    _chk(z3.And(H >= 0, H <= 23), "hour must be in 0..23")
    _chk(z3.And(M >= 0, M <= 59), "minute must be in 0..59")
    _chk(z3.And(S >= 0, S <= 59), "second must be in 0..59")
    _chk(z3.And(us >= 0, us < US), "microsecond must be in 0..999999")
    if isinstance(fold, Sym):
        raise Unsupported("symbolic fold")
    return SymDT(fields=(y, mo, d, H, M, S, us), tz=tzinfo, fold=fold)


def mk_time(hour=0, minute=0, second=0, microsecond=0, tzinfo=None, *, fold=0):
    H, M, S, us = map(T, (hour, minute, second, microsecond))
    _chk(z3.And(H >= 0, H <= 23), "hour must be in 0..23")
    _chk(z3.And(M >= 0, M <= 59), "minute must be in 0..59")
    _chk(z3.And(S >= 0, S <= 59), "second must be in 0..59")
    _chk(z3.And(us >= 0, us < US), "microsecond must be in 0..999999")
    return SymTime((H, M, S, us), tz=tzinfo)


def mk_timedelta(days=0, seconds=0, microseconds=0, milliseconds=0, minutes=0, hours=0, weeks=0):
    parts = dict(days=days, seconds=seconds, microseconds=microseconds, milliseconds=milliseconds, minutes=minutes,
                 hours=hours, weeks=weeks)
    for k, v in parts.items():
        if isinstance(v, float) and v != int(v):
            raise Unsupported("fractional timedelta with symbolic parts")
    us = (T(days) * 86400 * US + T(seconds) * US + T(microseconds) + T(milliseconds) * 1000 + T(minutes) * 60 * US
          + T(hours) * 3600 * US + T(weeks) * 7 * 86400 * US)
    mins = None
    only_min = all((not isinstance(v, Sym)) and v == 0 for k, v in parts.items() if k not in ("minutes", "hours"))
    if only_min:
        mins = T(minutes) + T(hours) * 60
    return SymTD(z3.simplify(us), mins)


def m_copysign(x, y):
    """math.copysign on integers (the result is an integral float; represented as SymInt)"""
    if isinstance(x, float) or isinstance(y, float):
        if not (isinstance(x, Sym) or isinstance(y, Sym)):
            return math.copysign(x, y)
    xa, ya = T(x), T(y)
    ax = z3.If(xa >= 0, xa, -xa)
    return SymInt(z3.simplify(z3.If(ya >= 0, ax, -ax)))      # copysign(x, 0) == +|x| for integer zero


def m_combine(date, time, tzinfo=True):
    if not isinstance(time, SymTime) and not isinstance(date, SymDate):
        return datetime.datetime.combine(date, time) if tzinfo is True else datetime.datetime.combine(date, time, tzinfo)
    if isinstance(date, SymDate):
        y, mo, d = date.y, date.mo, date.d
    else:
        y, mo, d = (z3.IntVal(date.year), z3.IntVal(date.month), z3.IntVal(date.day))
    H, M, S, us = time_fields(time)
    tz = time_tz(time) if tzinfo is True else tzinfo
    return SymDT(fields=(y, mo, d, H, M, S, us), tz=tz)


rt.MODELS[datetime.datetime.combine] = m_combine
rt.MODELS.update({datetime.datetime: mk_datetime, datetime.time: mk_time, datetime.timedelta: mk_timedelta,
                  math.copysign: m_copysign})


# ---------------------------------------------------------------- helpers
def td_us(td):
    if isinstance(td, SymTD):
        return td.us
    if isinstance(td, datetime.timedelta):
        return z3.IntVal(td // datetime.timedelta(microseconds=1))
    raise Unsupported(f"timedelta expected, got {type(td).__name__}")


def _real_tz_call(tz, name, dt):
    """utcoffset / tzname of a real tzinfo object for a (possibly symbolic) value: python-level tzinfo classes of the
    library / harnesses are executed (instrumented) with the value itself, so zones whose offset depends on the date work"""
    cls = type(tz)
    f = None
    for b in cls.__mro__:
        if name in vars(b):
            f = vars(b)[name]
            break
    import types as _t
    if isinstance(f, _t.FunctionType) and rt._is_ofx(f) and isinstance(dt, Sym):
        return rt.call(_t.MethodType(f, tz), dt)
    return getattr(tz, name)(None if isinstance(dt, Sym) else dt)


def tz_offset_us(tz, dt=None):
    """utc offset in µs as a z3 term, or None for naive"""
    if tz is None:
        return None
    if isinstance(tz, SymTz):
        return tz.off_min * 60 * US
    off = _real_tz_call(tz, "utcoffset", dt)
    if off is None:
        return None
    return td_us(off)


def dt_epoch(v):
    if isinstance(v, SymDT):
        return v.epoch()
    return z3.IntVal((v.replace(tzinfo=None) - _EPOCH0) // datetime.timedelta(microseconds=1))


def dt_tz(v):
    return v.tz if isinstance(v, SymDT) else v.tzinfo


def utc_epoch(v):
    off = tz_offset_us(dt_tz(v), v)
    if off is None:
        return None
    return dt_epoch(v) - off


def _is_td(v):
    return isinstance(v, (SymTD, datetime.timedelta))


def _is_dt(v):
    return isinstance(v, (SymDT, datetime.datetime))


def _binop(op, a, b):
    if op == 'abs' and isinstance(a, SymTD):
        return SymTD(z3.If(a.us >= 0, a.us, -a.us), None if a.mins is None else z3.If(a.mins >= 0, a.mins, -a.mins))
    if op == 'u-' and isinstance(a, SymTD):
        return SymTD(-a.us, None if a.mins is None else -a.mins)
    if _is_dt(a) and _is_td(b) and op in ('+', '-'):
        d = td_us(b)
        e = dt_epoch(a)
        return SymDT(epoch=z3.simplify(e + d if op == '+' else e - d), tz=dt_tz(a))
    if _is_td(a) and _is_dt(b) and op == '+':
        return _binop('+', b, a)
    if _is_dt(a) and _is_dt(b) and op == '-':
        ua, ub = utc_epoch(a), utc_epoch(b)
        if (ua is None) != (ub is None):
            raise TypeError("can't subtract offset-naive and offset-aware datetimes")
        if ua is None:
            return SymTD(z3.simplify(dt_epoch(a) - dt_epoch(b)))
        return SymTD(z3.simplify(ua - ub))
    if _is_td(a) and _is_td(b):
        if op == '+':
            return SymTD(z3.simplify(td_us(a) + td_us(b)))
        if op == '-':
            return SymTD(z3.simplify(td_us(a) - td_us(b)))
        if op == '//':
            if isinstance(b, datetime.timedelta):
                k = b // datetime.timedelta(microseconds=1)
                if k == 60 * US and getattr(a, 'mins', None) is not None:
                    return SymInt(a.mins)
                if k == 1:
                    return SymInt(td_us(a))
                if k > 0:
                    return SymInt(td_us(a) / k)
            raise Unsupported("timedelta // symbolic timedelta")
    if _is_td(a) and isinstance(b, (int, SymInt)) and op == '*':
        return SymTD(z3.simplify(td_us(a) * T(b)), None)
    if isinstance(a, (int, SymInt)) and _is_td(b) and op == '*':
        return _binop('*', b, a)
    return NotImplemented


rt.BINOP_HOOKS.append(_binop)


def _compare(op, a, b):
    if _is_td(a) and _is_td(b):
        x, y = td_us(a), td_us(b)
    elif _is_dt(a) and _is_dt(b):
        x, y = utc_epoch(a), utc_epoch(b)
        if (x is None) != (y is None):
            if op == '==':
                return False
            if op == '!=':
                return True
            raise TypeError("can't compare offset-naive and offset-aware datetimes")
        if x is None:
            x, y = dt_epoch(a), dt_epoch(b)
    elif isinstance(a, (SymDate, datetime.date)) and isinstance(b, (SymDate, datetime.date)) and not isinstance(a, datetime.datetime) and not isinstance(b, datetime.datetime):
        x = a.ordinal() if isinstance(a, SymDate) else z3.IntVal(a.toordinal() - 1)
        y = b.ordinal() if isinstance(b, SymDate) else z3.IntVal(b.toordinal() - 1)
    elif isinstance(a, (SymTime, datetime.time)) and isinstance(b, (SymTime, datetime.time)):
        if op not in ('==', '!='):
            raise Unsupported("time ordering")
        fa, fb = time_fields(a), time_fields(b)
        oa, ob = tz_offset_us(time_tz(a)), tz_offset_us(time_tz(b))
        if (oa is None) != (ob is None):
            return op == '!='
        ta = ((fa[0] * 60 + fa[1]) * 60 + fa[2]) * US + fa[3]
        tb = ((fb[0] * 60 + fb[1]) * 60 + fb[2]) * US + fb[3]
        if oa is not None:
            ta, tb = ta - oa, tb - ob
        r = SymBool(z3.simplify(ta == tb))
        return r if op == '==' else rt.not_(r)
    else:
        if isinstance(a, (SymDT, SymTD, SymTime, SymTz)) or isinstance(b, (SymDT, SymTD, SymTime, SymTz)):
            if a is None or b is None or pytype(a) is not pytype(b):
                if op == '==':
                    return False
                if op == '!=':
                    return True
        return NotImplemented
    return SymBool(z3.simplify({'==': x == y, '!=': x != y, '<': x < y, '<=': x <= y, '>': x > y, '>=': x >= y}[op]))


rt.COMPARE_HOOKS.append(_compare)


def time_fields(t):
    if isinstance(t, SymTime):
        return t._f
    return tuple(z3.IntVal(v) for v in (t.hour, t.minute, t.second, t.microsecond))


def time_tz(t):
    return t.tz if isinstance(t, SymTime) else t.tzinfo


# ---------------------------------------------------------------- attributes / methods
def _utcoffset(v):
    tz = v.tz
    if tz is None:
        return None
    if isinstance(tz, SymTz):
        return SymTD(tz.off_min * 60 * US, tz.off_min)
    return _real_tz_call(tz, "utcoffset", None if isinstance(v, SymTime) else v)      # datetime.time asks its zone with None


def _tzname(v):
    tz = v.tz
    if tz is None:
        return None
    if isinstance(tz, SymTz):
        return tz.name
    return _real_tz_call(tz, "tzname", None if isinstance(v, SymTime) else v)


def _dt_replace(v, **kw):
    if set(kw) - {"tzinfo"}:
        f = list(v.fields())
        idx = dict(year=0, month=1, day=2, hour=3, minute=4, second=5, microsecond=6)
        tz = kw.pop("tzinfo", v.tz)
        fold = kw.pop("fold", v.fold)
        for k, x in kw.items():
            f[idx[k]] = T(x)
        return mk_datetime(*[SymInt(t) for t in f], tzinfo=tz, fold=fold)
    return SymDT(fields=v._f, epoch=v._e, tz=kw["tzinfo"], fold=v.fold)


def _time_replace(v, **kw):
    if set(kw) - {"tzinfo"}:
        raise Unsupported("time.replace of fields")
    return SymTime(v._f, tz=kw["tzinfo"])


def digits_field(t, w):
    eng = E()
    if w == 4 and not eng.branch(t >= 1000):
        raise Unsupported("strftime of year < 1000 is platform dependent")
    return rt.digits_of(t, w)


def _strftime(v, fmt):
    if isinstance(fmt, Sym):
        raise Unsupported("symbolic strftime format")
    if isinstance(v, SymDT):
        y, mo, d, H, M, S, us = v.fields()
        W = {'Y': (y, 4), 'm': (mo, 2), 'd': (d, 2), 'H': (H, 2), 'M': (M, 2), 'S': (S, 2)}
    else:
        H, M, S, us = v._f
        W = {'H': (H, 2), 'M': (M, 2), 'S': (S, 2)}
    out = []
    i = 0
    while i < len(fmt):
        if fmt[i] == '%' and i + 1 < len(fmt):
            k = fmt[i + 1]
            if k == '%':
                out.append('%')
            elif k in W:
                t, w = W[k]
                out += digits_field(t, w)
            elif k == 'f':
                out += rt.digits_of(us, 6)
            else:
                raise Unsupported(f"strftime %{k}")
            i += 2
        else:
            out.append(fmt[i])
            i += 1
    return rt.mkstr(out)


def _dt_time(v):
    f = v.fields()
    return SymTime(f[3:], tz=None)


def _dt_timetz(v):
    f = v.fields()
    return SymTime(f[3:], tz=v.tz)


class SymDate(Sym):
    pytype = datetime.date

    def __init__(self, y, mo, d):
        self.y, self.mo, self.d = y, mo, d

    def ordinal(self):
        return dfc(self.y, self.mo, self.d)


def _dt_date(v):
    f = v.fields()
    return SymDate(f[0], f[1], f[2])


def _fixed_local_offset_us():
    """UTC offset of the process-local zone in microseconds if it cannot depend on the date: TZ is a POSIX zone without a
    daylight rule (EST+5, IST-5:30, UTC0), or the process runs on plain UTC; None otherwise"""
    import os, re, time
    tz = os.environ.get("TZ")
    if tz is not None and re.fullmatch(r"[A-Za-z]{3,}[+-]?\d{1,2}(:\d\d)?", tz) and not time.daylight:
        return -time.timezone * US
    if tz in (None, "UTC") and time.timezone == 0 and not time.daylight and time.tzname[0] == "UTC":
        return 0
    return None


def _astimezone(v, tz=None):
    if tz is None:
        raise Unsupported("astimezone() to local zone")
    ue = utc_epoch(v)
    if ue is None:
        # a naive value is taken as process-local time; modelled when the local zone has one constant offset
        lo = _fixed_local_offset_us()
        if lo is None:
            raise Unsupported("astimezone on naive value (local zone with a date-dependent offset)")
        ue = dt_epoch(v) - lo
    return SymDT(epoch=z3.simplify(ue + tz_offset_us(tz)), tz=tz)


_DT_IDX = {'year': 0, 'month': 1, 'day': 2, 'hour': 3, 'minute': 4, 'second': 5, 'microsecond': 6}
_T_IDX = {'hour': 0, 'minute': 1, 'second': 2, 'microsecond': 3}
_DT_METHODS = {'utcoffset': _utcoffset, 'tzname': _tzname, 'replace': _dt_replace, 'strftime': _strftime,
               'time': _dt_time, 'timetz': _dt_timetz, 'date': _dt_date, 'astimezone': _astimezone}
_T_METHODS = {'utcoffset': _utcoffset, 'tzname': _tzname, 'replace': _time_replace, 'strftime': _strftime}


def _attr(o, name):
    if isinstance(o, SymDT):
        if name in _DT_IDX:
            return SymInt(o.fields()[_DT_IDX[name]])
        if name == 'tzinfo':
            return o.tz
        if name == 'fold':
            return o.fold
        if name in _DT_METHODS:
            return rt.BoundModel(_DT_METHODS[name], o)
        if name == '__class__':
            return datetime.datetime
        raise AttributeError(name) if name.startswith('_') else Unsupported(f"datetime.{name}")
    if isinstance(o, SymTime):
        if name in _T_IDX:
            return SymInt(o._f[_T_IDX[name]])
        if name == 'tzinfo':
            return o.tz
        if name in _T_METHODS:
            return rt.BoundModel(_T_METHODS[name], o)
        if name == '__class__':
            return datetime.time
        raise AttributeError(name) if name.startswith('_') else Unsupported(f"time.{name}")
    if isinstance(o, SymDate):
        if name in ('year', 'month', 'day'):
            return SymInt({'year': o.y, 'month': o.mo, 'day': o.d}[name])
        if name == '__class__':
            return datetime.date
        raise Unsupported(f"date.{name}")
    if isinstance(o, SymTD):
        if name == 'total_seconds':
            raise Unsupported("timedelta.total_seconds (float)")
        if name == 'days':
            return SymInt(o.us / DAY_US)
        if name == 'seconds':
            return SymInt((o.us % DAY_US) / US)
        if name == 'microseconds':
            return SymInt(o.us % US)
        if name == '__class__':
            return datetime.timedelta
        raise Unsupported(f"timedelta.{name}")
    if isinstance(o, SymTz):
        if name == 'utcoffset':
            return rt.BoundModel(lambda tz, dt=None: SymTD(tz.off_min * 60 * US, tz.off_min), o)
        if name == 'tzname':
            return rt.BoundModel(lambda tz, dt=None: tz.name, o)
        raise Unsupported(f"tzinfo.{name}")
    return NotImplemented


rt.SYM_ATTR_HOOKS.append(_attr)


def _concrete_attr(o, name):
    """datetime.datetime(..., tzinfo=SymTz) cannot exist natively; but concrete datetimes meeting symbolic
    timedeltas are handled in _binop.  Nothing to do here."""
    return NotImplemented


# ---------------------------------------------------------------- concretisation
def _conc(v, model):
    ev = lambda t: model.eval(t, model_completion=True).as_long()
    if isinstance(v, SymTz):
        nm = rt.concretize(v.name, model) if isinstance(v.name, Sym) else v.name
        return FixedTz(ev(v.off_min), nm)
    if isinstance(v, SymTD):
        return datetime.timedelta(microseconds=ev(v.us))
    if isinstance(v, SymDT):
        tz = _conc(v.tz, model) if isinstance(v.tz, Sym) else v.tz
        if v._f is not None:
            y, mo, d, H, M, S, us = [ev(t) for t in v._f]
            return datetime.datetime(y, mo, d, H, M, S, us, tzinfo=tz, fold=v.fold)
        return (_EPOCH0 + datetime.timedelta(microseconds=ev(v._e))).replace(tzinfo=tz, fold=v.fold)
    if isinstance(v, SymDate):
        return datetime.date(ev(v.y), ev(v.mo), ev(v.d))
    if isinstance(v, SymTime):
        tz = _conc(v.tz, model) if isinstance(v.tz, Sym) else v.tz
        H, M, S, us = [ev(t) for t in v._f]
        return datetime.time(H, M, S, us, tzinfo=tz)
    return NotImplemented


rt.CONCRETIZERS.append(_conc)


# ---------------------------------------------------------------- input constructors for harnesses
def sym_datetime(prefix, year_lo=1900, year_hi=2200, tz=None):
    """a symbolic calendar instant with valid fields in [year_lo, year_hi]"""
    eng = E()
    y, mo, d, H, M, S, us = [z3.Int(f"in!{prefix}!{n}") for n in ("y", "mo", "d", "H", "M", "S", "us")]
    eng.assume(z3.And(y >= year_lo, y <= year_hi, mo >= 1, mo <= 12, d >= 1, d <= dim(y, mo), H >= 0, H <= 23,
                      M >= 0, M <= 59, S >= 0, S <= 59, us >= 0, us < US))
    for v, (lo, hi) in zip((y, mo, d, H, M, S, us), [(year_lo, year_hi), (1, 12), (1, 31), (0, 23), (0, 59), (0, 59), (0, US - 1)]):
        eng.set_bounds(v, lo, hi)
    return SymDT(fields=(y, mo, d, H, M, S, us), tz=tz)


def sym_time(prefix, tz=None):
    eng = E()
    H, M, S, us = [z3.Int(f"in!{prefix}!{n}") for n in ("H", "M", "S", "us")]
    eng.assume(z3.And(H >= 0, H <= 23, M >= 0, M <= 59, S >= 0, S <= 59, us >= 0, us < US))
    for v, (lo, hi) in zip((H, M, S, us), [(0, 23), (0, 59), (0, 59), (0, US - 1)]):
        eng.set_bounds(v, lo, hi)
    return SymTime((H, M, S, us), tz=tz)


def sym_tz(prefix, lo=-720, hi=840, name=None):
    eng = E()
    off = z3.Int(f"in!{prefix}!off")
    eng.assume(z3.And(off >= lo, off <= hi))
    eng.set_bounds(off, lo, hi)
    return SymTz(off, name)
