"""Models around xml.etree.ElementTree: Element.find on simple paths, a C-faithful TreeBuilder, tostring().

Real Element objects are used as carriers (they accept symbolic objects as .tag/.text/.tail)."""
import re
import xml.etree.ElementTree as ET
import z3
from .. import rt
from ..core import Sym, SymStr, SymChar, SymEnum, SymBytes, OpaqueStr, Unsupported
from ..rt import chars, mkstr, char_test, truth, compare

_SIMPLE = re.compile(r"^(?:\./)?([A-Za-z0-9_.\-]+)$")


def e_find(elem, path, namespaces=None):
    m = _SIMPLE.match(path) if isinstance(path, str) else None
    if m is None:
        raise Unsupported(f"Element.find({path!r})")
    name = m.group(1)
    for ch in elem:
        if truth(compare('==', ch.tag, name)):
            return ch
    return None


def e_findall(elem, path, namespaces=None):
    m = _SIMPLE.match(path) if isinstance(path, str) else None
    if m is None:
        raise Unsupported(f"Element.findall({path!r})")
    name = m.group(1)
    return [ch for ch in elem if truth(compare('==', ch.tag, name))]


def _carries_sym(elem, depth=0):
    if isinstance(elem.tag, Sym) or isinstance(elem.text, Sym) or isinstance(elem.tail, Sym):
        return True
    if depth < 6:
        for ch in elem:
            if _carries_sym(ch, depth + 1):
                return True
    return False


def _hook(o, name):
    if isinstance(o, ET.Element):
        if name == 'find':
            return rt.BoundModel(lambda e, p, ns=None: e.find(p, ns) if not _carries_sym(e, 5) else e_find(e, p, ns), o)
        if name == 'findall':
            return rt.BoundModel(lambda e, p, ns=None: e.findall(p, ns) if not _carries_sym(e, 5) else e_findall(e, p, ns), o)
    return NotImplemented


rt.GETATTR_HOOKS.append(_hook)


# ---------------------------------------------------------------- TreeBuilder (mirrors the C accelerator)
class ModelTreeBuilder:
    def __init__(self, *a, **k):
        pass

    """State machine of xml.etree.ElementTree.TreeBuilder as implemented in C (_elementtree.c):
    end() pops the current element without comparing its tag with the argument; close() returns the root even
    when elements are still open (the pure-Python TreeBuilder asserts both).  data() collects text; it is
    attached as .text of the last opened element or .tail of the last closed one."""

    def _tb_init(self):
        self._stack = []
        self._root = None
        self._last = None
        self._data = []
        self._tail = None

    def _flush(self):
        if self._data:
            if self._last is not None:
                text = rt.SYM_METHODS[(str, 'join')]("", self._data)
                if self._tail:
                    self._last.tail = text
                else:
                    self._last.text = text
            self._data = []

    def start(self, tag, attrs=None):
        self._flush()
        e = ET.Element("x")
        e.tag = tag
        if self._stack:
            self._stack[-1].append(e)
        elif self._root is None:
            self._root = e
        else:
            raise ET.ParseError("multiple elements on top level")
        self._last = e
        self._stack.append(e)
        self._tail = 0
        return e

    def data(self, d):
        self._data.append(d)

    def end(self, tag):
        self._flush()
        if not self._stack:
            raise IndexError("pop from empty stack")
        self._last = self._stack.pop()
        self._tail = 1
        return self._last

    def close(self):
        self._flush()
        return self._root


_TB_CACHE = {}


def model_treebuilder_class(real):
    """a twin of ofxtools.Parser.TreeBuilder: the library's own methods (feed, _feedmatch, _start, _groomstring,
    regex - instrumented as usual) on top of ModelTreeBuilder instead of the C base class"""
    tw = _TB_CACHE.get(real)
    if tw is None:
        ns = {k: v for k, v in vars(real).items() if not k.startswith('__') or k in ('__doc__', '__init__')}
        tw = type(real.__name__, (ModelTreeBuilder,), ns)
        tw.__module__ = real.__module__
        tw.__qualname__ = real.__qualname__
        tw.__sx_model_of__ = real
        _TB_CACHE[real] = tw
    return tw


def make_treebuilder(real_cls, symbolic):
    """TreeBuilder for harnesses: the real class natively, the model twin under symbolic execution"""
    if not symbolic:
        return real_cls()
    import types
    tw = model_treebuilder_class(real_cls)
    tb = object.__new__(tw)
    tb._tb_init()
    init = vars(real_cls).get('__init__')
    if init is not None:
        rt.call(types.MethodType(init, tb))       # the library's own __init__ (instrumented; super() -> the model)
    return tb


def _tb_call_hook(f, args, kw):
    slf = getattr(f, '__self__', None)
    if isinstance(slf, ModelTreeBuilder) and getattr(f, '__func__', None) is not None and f.__func__.__name__ in (
            'start', 'data', 'end', 'close', '_flush', '_tb_init') and f.__func__.__qualname__.startswith('ModelTreeBuilder'):
        return (True, f(*args, **kw))
    return None


rt.CALL_HOOKS.append(_tb_call_hook)


# ---------------------------------------------------------------- ET.tostring
HTML_EMPTY = {"area", "base", "basefont", "br", "col", "embed", "frame", "hr", "img", "input", "isindex", "link", "meta",
              "param", "source", "track", "wbr"}


def _escape_cdata(t):
    out = []
    for c in chars(t):
        if isinstance(c, str):
            out += list({'&': '&amp;', '<': '&lt;', '>': '&gt;'}.get(c, c))
        elif char_test(c, [(38, 38)]):
            out += list('&amp;')
        elif char_test(c, [(60, 60)]):
            out += list('&lt;')
        elif char_test(c, [(62, 62)]):
            out += list('&gt;')
        else:
            out.append(c)
    return out


def m_tostring(element, encoding=None, method=None, *, xml_declaration=None, default_namespace=None, short_empty_elements=True):
    """ET.tostring for method html/xml on attribute-less, namespace-less trees (what the library produces)"""
    if method not in (None, "xml", "html"):
        raise Unsupported(f"tostring method {method}")
    out = []

    def ser(e):
        tag = e.tag
        if isinstance(tag, OpaqueStr):
            raise Unsupported("opaque tag")
        if e.attrib:
            raise Unsupported("attributes")
        tchars = chars(tag)
        has_text = e.text is not None and (isinstance(e.text, Sym) or e.text != "")
        if method == "html":
            ltag = tag.lower() if isinstance(tag, str) else None
            if ltag is None:
                raise Unsupported("html serialisation of a symbolic tag")
            out.extend(['<'] + tchars + ['>'])
            if e.text is not None and (isinstance(e.text, Sym) or e.text):
                if ltag in ("script", "style"):
                    out.extend(chars(e.text))
                else:
                    out.extend(_escape_cdata(e.text))
            for c in e:
                ser(c)
            if ltag not in HTML_EMPTY:
                out.extend(['<', '/'] + tchars + ['>'])
        else:
            if has_text or len(e) or not short_empty_elements:
                out.extend(['<'] + tchars + ['>'])
                if has_text:
                    out.extend(_escape_cdata(e.text))
                for c in e:
                    ser(c)
                out.extend(['<', '/'] + tchars + ['>'])
            else:
                out.extend(['<'] + tchars + [' ', '/', '>'])
        if e.tail is not None and (isinstance(e.tail, Sym) or e.tail):
            out.extend(_escape_cdata(e.tail))
    ser(element)
    s = mkstr(out)
    if encoding == "unicode":
        return s
    enc = encoding or "us-ascii"
    if isinstance(s, str):
        return s.encode(enc, "xmlcharrefreplace")
    import codecs
    name = codecs.lookup(enc).name
    if name == "ascii":
        # non-ASCII characters become character references
        items = []
        for c in chars(s):
            if isinstance(c, str):
                items += list(c.encode("ascii", "xmlcharrefreplace"))
            elif char_test(c, [(0, 127)]):
                items.append(c.t)
            else:
                raise Unsupported("character reference for symbolic non-ASCII character")
        return SymBytes(items)
    return rt.SYM_METHODS[(str, 'encode')](s, enc)


def _tostring_call_hook(f, args, kw):
    if f is ET.tostring and args and isinstance(args[0], ET.Element) and _carries_sym(args[0]):
        return (True, m_tostring(*args, **kw))
    return None


rt.CALL_HOOKS.append(_tostring_call_hook)
rt.NATIVE_FUNCS.add(make_treebuilder)
