from . import strings, regex, dt, dec, io  # noqa
