from . import strings, regex, dt, dec, io, etree  # noqa
