from . import strings, regex, dt, dec  # noqa
