from . import strings, regex  # noqa
