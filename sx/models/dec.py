"""Model of decimal.Decimal for finite values: sign (z3 Bool), coefficient (z3 Int >= 0), exponent (python int).

The exponent is concrete on every path (harnesses fork over it), which keeps quantize / str linear.
Validated against the real decimal module by the per-path witness replay.
"""
import decimal
import z3
from .. import rt
from ..core import Sym, SymInt, SymBool, SymStr, SymChar, SymEnum, OpaqueStr, Unsupported
from ..rt import E, chars, mkstr, char_test, decide

PREC = 28


class SymDec(Sym):
    pytype = decimal.Decimal

    def __init__(self, neg, coef, exp):
        self.neg, self.coef, self.exp = neg, coef, exp     # z3 Bool | bool, z3 Int term, int

    def __repr__(self):
        return f"SymDec(exp={self.exp})"


def _negterm(n):
    return z3.BoolVal(n) if isinstance(n, bool) else n


def parts(d):
    """(sign 0/1, coefficient, exponent) of a Decimal (finite) - works on symbolic and concrete values"""
    if isinstance(d, SymDec):
        n = d.neg
        return (int(n) if isinstance(n, bool) else SymInt(z3.If(n, 1, 0)), SymInt(d.coef), d.exp)
    t = d.as_tuple()
    if not isinstance(t.exponent, int):
        return (t.sign, 0, t.exponent)
    return (t.sign, int("".join(map(str, t.digits)) or "0"), t.exponent)


rt.NATIVE_FUNCS.add(parts)

_BAD_LETTERS = [(ord(c), ord(c)) for c in "eEiInNfFaAsStTyY_"]
_WS = [(9, 13), (28, 32)]


def from_text(s):
    """decimal.Decimal(text) for symbolic text: [sign] digits [. digits] ; anything else InvalidOperation.
    Characters Python's parser treats specially beyond that (exponent, inf/nan letters, '_', blanks, non-ASCII)
    are outside the model (Unsupported => inconclusive)."""
    items = chars(s)
    neg = False
    i = 0
    if items:
        c0 = items[0]
        if isinstance(c0, str):
            if c0 in "+-":
                neg = c0 == "-"
                i = 1
        else:
            if char_test(c0, [(45, 45)]):
                neg, i = True, 1
            elif char_test(c0, [(43, 43)]):
                i = 1
    digs = []
    frac = None
    for c in items[i:]:
        if isinstance(c, str):
            if c.isdigit() and c.isascii():
                digs.append(c)
                if frac is not None:
                    frac += 1
            elif c == "." and frac is None:
                frac = 0
            elif c in "eEiInNfFaAsStTyY_" or c.isspace() or not c.isascii():
                raise Unsupported("Decimal() text beyond the modelled lexical space")
            else:
                raise decimal.InvalidOperation([decimal.ConversionSyntax])
            continue
        if char_test(c, [(48, 57)]):
            digs.append(c)
            if frac is not None:
                frac += 1
        elif frac is None and char_test(c, [(46, 46)]):
            frac = 0
        elif char_test(c, _BAD_LETTERS + _WS + [(128, 0x10FFFF)]):
            raise Unsupported("Decimal() text beyond the modelled lexical space")
        else:
            raise decimal.InvalidOperation([decimal.ConversionSyntax])
    if not digs:
        raise decimal.InvalidOperation([decimal.ConversionSyntax])
    v = rt.m_int(mkstr(digs))
    coef = rt.iterm(v)
    return SymDec(neg, coef, -(frac or 0))          # decimal.Decimal(str) is exact, whatever the context precision


def m_Decimal(value="0", context=None):
    if isinstance(value, SymDec):
        return value
    if isinstance(value, (SymStr, SymChar, SymEnum)):
        if isinstance(value, SymEnum):
            return decimal.Decimal(rt.concretize_enum(value))
        return from_text(value)
    if isinstance(value, SymInt):
        return SymDec(value.t < 0, z3.If(value.t < 0, -value.t, value.t), 0)
    if isinstance(value, Sym):
        raise Unsupported(f"Decimal({type(value).__name__})")
    return decimal.Decimal(value)


rt.MODELS[decimal.Decimal] = m_Decimal


def m_create_decimal(cx, value="0"):
    """Context.create_decimal: like Decimal(value), then rounded to the context's precision (half-even only)"""
    if not isinstance(value, Sym):
        return cx.create_decimal(value)
    if not cx.traps[decimal.InvalidOperation]:
        raise Unsupported("create_decimal in a context that does not trap InvalidOperation")
    d = m_Decimal(value)
    if not isinstance(d, SymDec):
        return cx.create_decimal(d)
    eng = E()
    prec = cx.prec
    if eng.branch(d.coef < 10 ** prec):
        return d                                    # fits: exact
    if cx.rounding != decimal.ROUND_HALF_EVEN:
        raise Unsupported("create_decimal rounding mode")
    k = 1
    while not eng.branch(d.coef < 10 ** (prec + k)):
        k += 1
        if k > 40:
            raise Unsupported("coefficient too long")
    p = 10 ** k
    qd = d.coef / p
    r = d.coef - qd * p
    half = p // 2
    up = z3.Or(r > half, z3.And(r == half, qd % 2 == 1))
    coef = z3.If(up, qd + 1, qd)
    exp = d.exp + k
    if eng.branch(coef >= 10 ** prec):              # 999...9 rounded up: one digit more, renormalised
        return SymDec(d.neg, coef / 10, exp + 1)
    return SymDec(d.neg, z3.simplify(coef), exp)


rt.CONC_METHODS[(decimal.Context, 'create_decimal')] = m_create_decimal


def _ndigits(coef, maxd=40):
    """number of digits of coef (>= 1), forking"""
    eng = E()
    n = 1
    while not eng.branch(coef < 10 ** n):
        n += 1
        if n > maxd:
            raise Unsupported("coefficient too long")
    return n


def quantize(d, q, rounding=None, context=None):
    if isinstance(q, SymDec):
        qexp = q.exp
    else:
        if not q.is_finite():
            raise Unsupported("quantize to special value")
        qexp = q.as_tuple().exponent
    if rounding is not None and rounding != decimal.ROUND_HALF_EVEN:
        raise Unsupported("quantize rounding mode")
    if not isinstance(d, SymDec):
        return d.quantize(q.neg and None if False else q) if not isinstance(q, SymDec) else _quantize_conc(d, q)
    if d.exp >= qexp:
        k = d.exp - qexp
        coef = d.coef * (10 ** k)
    else:
        k = qexp - d.exp
        p = 10 ** k
        qd = d.coef / p
        r = d.coef - qd * p
        half = p // 2
        up = z3.Or(r > half, z3.And(r == half, qd % 2 == 1))
        coef = z3.If(up, qd + 1, qd)
    coef = z3.simplify(coef)
    # result must fit the context precision
    if not decide(coef < 10 ** PREC):
        raise decimal.InvalidOperation("quantize result has too many digits for current context")
    return SymDec(d.neg, coef, qexp)


def _quantize_conc(d, q):
    raise Unsupported("concrete Decimal quantized to symbolic quantum")


def same_quantum(d, o):
    if not isinstance(d, SymDec) and not isinstance(o, SymDec):
        return d.same_quantum(o)
    de = d.exp if isinstance(d, SymDec) else (d.as_tuple().exponent if d.is_finite() else None)
    oe = o.exp if isinstance(o, SymDec) else (o.as_tuple().exponent if o.is_finite() else None)
    if de is None or oe is None:
        raise Unsupported("same_quantum with special values")
    return de == oe


def _sign_chars(d):
    n = d.neg
    if isinstance(n, bool):
        return ['-'] if n else []
    return ['-'] if E().branch(n) else []


def to_str(d, eng_notation=False):
    """Decimal.__str__ (to-scientific-string)"""
    sign = _sign_chars(d)
    nd = _ndigits(d.coef)
    digs = rt.digits_of(d.coef, nd)
    leftdigits = d.exp + nd
    if d.exp <= 0 and leftdigits > -6:
        dotplace = leftdigits
    else:
        dotplace = 1
    if dotplace <= 0:
        intpart = ['0']
        fracpart = ['.'] + ['0'] * (-dotplace) + digs
    elif dotplace >= nd:
        intpart = digs + ['0'] * (dotplace - nd)
        fracpart = []
    else:
        intpart = digs[:dotplace]
        fracpart = ['.'] + digs[dotplace:]
    if leftdigits == dotplace:
        exp = []
    else:
        exp = list("E%+d" % (leftdigits - dotplace))
    return mkstr(sign + intpart + fracpart + exp)


def to_fixed(d):
    """format(d, 'f'): plain notation, never an exponent"""
    sign = _sign_chars(d)
    nd = _ndigits(d.coef)
    digs = rt.digits_of(d.coef, nd)
    if d.exp >= 0:
        # rescaled to exponent 0 first: the integer coef * 10^exp (a zero coefficient stays a single '0')
        if d.exp > 0 and decide(d.coef == 0):
            return mkstr(sign + ['0'])
        return mkstr(sign + digs + ['0'] * d.exp)
    dotplace = d.exp + nd
    if dotplace <= 0:
        return mkstr(sign + ['0', '.'] + ['0'] * (-dotplace) + digs)
    return mkstr(sign + digs[:dotplace] + ['.'] + digs[dotplace:])


def _str_hook(x):
    if isinstance(x, SymDec):
        return to_str(x)
    return NotImplemented


rt.STR_HOOKS.append(_str_hook)

_orig_fmt_value = rt.fmt_value


def _fmt_value(v, spec):
    if isinstance(v, SymDec):
        if spec == '':
            return chars(to_str(v))
        if spec == 'f':
            return chars(to_fixed(v))
        return None
    return _orig_fmt_value(v, spec)


rt.fmt_value = _fmt_value


def _attr(o, name):
    if isinstance(o, SymDec):
        if name == 'quantize':
            return rt.BoundModel(quantize, o)
        if name == 'same_quantum':
            return rt.BoundModel(same_quantum, o)
        if name == 'is_finite':
            return rt.BoundModel(lambda d: True, o)
        if name == 'is_nan':
            return rt.BoundModel(lambda d: False, o)
        if name == 'is_infinite':
            return rt.BoundModel(lambda d: False, o)
        if name == 'is_signed':
            return rt.BoundModel(lambda d: d.neg if isinstance(d.neg, bool) else SymBool(d.neg), o)
        if name == 'is_zero':
            return rt.BoundModel(lambda d: SymBool(d.coef == 0), o)
        if name == '__class__':
            return decimal.Decimal
        if name == '__format__':
            return rt.BoundModel(lambda d, spec: mkstr(_fmt_value(d, spec)), o)
        if name == 'as_tuple':
            raise Unsupported("Decimal.as_tuple on symbolic value (use sx.models.dec.parts)")
        raise Unsupported(f"Decimal.{name}")
    return NotImplemented


rt.SYM_ATTR_HOOKS.append(_attr)


def _conc_attr(o, name):
    # concrete Decimal whose method receives a symbolic operand
    if isinstance(o, decimal.Decimal) and name in ('quantize', 'same_quantum'):
        return rt.BoundModel(quantize if name == 'quantize' else same_quantum, o)
    return NotImplemented


rt.GETATTR_HOOKS.append(_conc_attr)


def _value(d):
    """signed scaled integer pair for comparisons: (signed coef, exp)"""
    s, c, e = (d.neg, d.coef, d.exp) if isinstance(d, SymDec) else (bool(d.as_tuple().sign), z3.IntVal(int(abs(d).scaleb(-d.as_tuple().exponent))), d.as_tuple().exponent)
    return z3.If(_negterm(s), -c, c), e


def _compare(op, a, b):
    if isinstance(a, SymDec) or isinstance(b, SymDec):
        if not all(isinstance(x, (SymDec, decimal.Decimal, int, SymInt)) for x in (a, b)):
            if op == '==':
                return False
            if op == '!=':
                return True
            return NotImplemented
        def norm(x):
            if isinstance(x, (int, SymInt)):
                return rt.iterm(x), 0
            if isinstance(x, decimal.Decimal) and not x.is_finite():
                raise Unsupported("compare with special Decimal")
            return _value(x)
        (va, ea), (vb, eb) = norm(a), norm(b)
        m = min(ea, eb)
        x, y = va * 10 ** (ea - m), vb * 10 ** (eb - m)
        return SymBool(z3.simplify({'==': x == y, '!=': x != y, '<': x < y, '<=': x <= y, '>': x > y, '>=': x >= y}[op]))
    return NotImplemented


rt.COMPARE_HOOKS.append(_compare)


def _binop(op, a, b):
    """Decimal arithmetic with an integer zero (value + 0, 0 + value, value - 0): the sign of a zero is dropped,
    a positive exponent is expanded; results beyond the context precision are outside the model"""
    if op in ('+', '-') and (isinstance(a, SymDec) or isinstance(b, SymDec)):
        d, k = (a, b) if isinstance(a, SymDec) else (b, a)
        if isinstance(k, int) and not isinstance(k, bool) and k == 0 and not (op == '-' and d is b):
            exp = min(d.exp, 0)
            coef = d.coef * (10 ** (d.exp - exp))
            if not decide(coef < 10 ** PREC):
                raise Unsupported("Decimal addition rounded to the context precision")
            neg = d.neg if isinstance(d.neg, bool) else z3.And(d.neg, coef != 0)
            if isinstance(d.neg, bool) and d.neg:
                neg = coef != 0
            return SymDec(neg, z3.simplify(coef), exp)
        raise Unsupported("Decimal arithmetic on symbolic values")
    return NotImplemented


rt.BINOP_HOOKS.append(_binop)


def _conc(v, model):
    if isinstance(v, SymDec):
        neg = v.neg if isinstance(v.neg, bool) else z3.is_true(model.eval(v.neg, model_completion=True))
        coef = model.eval(v.coef, model_completion=True).as_long()
        return decimal.Decimal((1 if neg else 0, tuple(int(c) for c in str(coef)), v.exp))
    return NotImplemented


rt.CONCRETIZERS.append(_conc)


def sym_decimal(prefix, max_coef, exp):
    eng = E()
    neg = z3.Bool(f"in!{prefix}!neg")
    coef = z3.Int(f"in!{prefix}!coef")
    eng.assume(z3.And(coef >= 0, coef <= max_coef))
    eng.set_bounds(coef, 0, max_coef)
    return SymDec(neg, coef, exp)
