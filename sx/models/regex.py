"""Backtracking regex matcher over symbolic strings, driven by the sre parse tree of the *real* compiled pattern.

Character tests fork through the solver, so on each path the outcome of every test is concrete and Python's
leftmost / greedy / lazy priorities, captures, back-references and finditer skipping hold by construction.
"""
import re
import re._parser as sp
import re._constants as sc
import z3
from .. import rt
from ..core import Sym, SymStr, SymChar, SymEnum, OpaqueStr, Unsupported
from ..rt import decide, char_in, chars, mkstr

_PARSED = {}
_CAT_RANGES = {}


def _cat_py(a):
    if a is sc.CATEGORY_DIGIT:
        return str.isdecimal, False
    if a is sc.CATEGORY_NOT_DIGIT:
        return str.isdecimal, True
    if a is sc.CATEGORY_SPACE:
        return str.isspace, False
    if a is sc.CATEGORY_NOT_SPACE:
        return str.isspace, True
    if a is sc.CATEGORY_WORD:
        return (lambda ch: ch.isalnum() or ch == '_'), False
    if a is sc.CATEGORY_NOT_WORD:
        return (lambda ch: ch.isalnum() or ch == '_'), True
    raise Unsupported(f"regex category {a}")


def cat_ranges(a, hi=0x10FFFF):
    key = (a, hi)
    r = _CAT_RANGES.get(key)
    if r is None:
        f, neg = _cat_py(a)
        r = []
        start = None
        for cp in range(hi + 2):
            ok = cp <= hi and (f(chr(cp)) != neg)
            if ok and start is None:
                start = cp
            elif not ok and start is not None:
                r.append((start, cp - 1))
                start = None
        _CAT_RANGES[key] = r
    return r


def _cat_for(c, a):
    hi = 0x10FFFF
    if c.dom:
        m = max(h for _, h in c.dom)
        hi = 0xFF if m <= 0xFF else (0xFFFF if m <= 0xFFFF else 0x10FFFF)
    return cat_ranges(a, hi)


def _in_test(av, c):
    """(op IN) set membership for a symbolic char: python bool or z3 Bool"""
    neg = False
    ranges = []
    for o, a in av:
        if o is sc.NEGATE:
            neg = True
        elif o is sc.LITERAL:
            ranges.append((a, a))
        elif o is sc.RANGE:
            ranges.append((a[0], a[1]))
        elif o is sc.CATEGORY:
            ranges += _cat_for(c, a)
        else:
            raise Unsupported(f"regex set item {o}")
    r = char_in(c, ranges)
    if isinstance(r, bool):
        return r != neg
    return z3.Not(r) if neg else r


def _concrete_test(op, av, ch, flags):
    o = ord(ch)
    if op is sc.LITERAL:
        return o == av
    if op is sc.NOT_LITERAL:
        return o != av
    if op is sc.ANY:
        return bool(flags & re.DOTALL) or ch != "\n"
    if op is sc.IN:
        neg = False
        ok = False
        for k, a in av:
            if k is sc.NEGATE:
                neg = True
            elif k is sc.LITERAL:
                ok |= o == a
            elif k is sc.RANGE:
                ok |= a[0] <= o <= a[1]
            elif k is sc.CATEGORY:
                f, n = _cat_py(a)
                ok |= (f(ch) != n)
            else:
                raise Unsupported(str(k))
        return ok != neg
    raise Unsupported(str(op))


def _test(op, av, c, flags):
    if isinstance(c, str):
        return _concrete_test(op, av, c, flags)
    if op is sc.LITERAL:
        return rt.char_test(c, [(av, av)])
    if op is sc.NOT_LITERAL:
        r = char_in(c, [(av, av)])
        return (not r) if isinstance(r, bool) else decide(z3.Not(r))
    if op is sc.ANY:
        if flags & re.DOTALL:
            return True
        r = char_in(c, [(10, 10)])
        return (not r) if isinstance(r, bool) else decide(z3.Not(r))
    if op is sc.IN:
        return decide(_in_test(av, c))
    if op is sc.CATEGORY:
        return rt.char_test(c, _cat_for(c, av))
    raise Unsupported(str(op))


class Match:
    """model of re.Match over a list of (possibly symbolic) characters"""

    def __init__(self, pat, s, groups, string):
        self.re = pat
        self.s = s
        self.g = groups
        self.string = string

    def _span(self, k):
        if isinstance(k, str):
            k = self.re.groupindex[k]
        return self.g.get(k)

    def group(self, *ks):
        if not ks:
            ks = (0,)
        out = []
        for k in ks:
            sp_ = self._span(k)
            out.append(None if sp_ is None else mkstr(self.s[sp_[0]:sp_[1]]))
        return out[0] if len(out) == 1 else tuple(out)

    def __getitem__(self, k):
        return self.group(k)

    def groups(self, default=None):
        out = []
        for k in range(1, self.re.groups + 1):
            sp_ = self.g.get(k)
            out.append(default if sp_ is None else mkstr(self.s[sp_[0]:sp_[1]]))
        return tuple(out)

    def groupdict(self, default=None):
        out = {}
        for name, idx in self.re.groupindex.items():
            sp_ = self.g.get(idx)
            out[name] = default if sp_ is None else mkstr(self.s[sp_[0]:sp_[1]])
        return out

    def start(self, k=0):
        sp_ = self._span(k)
        return -1 if sp_ is None else sp_[0]

    def end(self, k=0):
        sp_ = self._span(k)
        return -1 if sp_ is None else sp_[1]

    def span(self, k=0):
        sp_ = self._span(k)
        return (-1, -1) if sp_ is None else tuple(sp_)


rt.NATIVE_TYPES.add(Match)


def _parse(pat):
    t = _PARSED.get(pat)
    if t is None:
        t = sp.parse(pat.pattern, pat.flags)
        _PARSED[pat] = t
    return t


def match_at(pat, s, pos, string=None, full=False):
    """s: list of chars.  Returns Match or None."""
    tree = _parse(pat)
    flags = pat.flags
    if flags & re.IGNORECASE:
        raise Unsupported("regex IGNORECASE")
    n = len(s)

    def is_nl(c):
        return (c == "\n") if isinstance(c, str) else rt.char_test(c, [(10, 10)])

    def m_seq(items, i, pos, groups, k):
        if i == len(items):
            return k(pos, groups)
        op, av = items[i]

        def nxt(p, g):
            return m_seq(items, i + 1, p, g, k)
        if op in (sc.LITERAL, sc.NOT_LITERAL, sc.ANY, sc.IN, sc.CATEGORY):
            if pos < n and _test(op, av, s[pos], flags):
                return nxt(pos + 1, groups)
            return None
        if op is sc.AT:
            if av in (sc.AT_BEGINNING, sc.AT_BEGINNING_STRING):
                if pos == 0:
                    return nxt(pos, groups)
                if av is sc.AT_BEGINNING and flags & re.MULTILINE and is_nl(s[pos - 1]):
                    return nxt(pos, groups)
                return None
            if av is sc.AT_END:
                if pos == n:
                    return nxt(pos, groups)
                if flags & re.MULTILINE:
                    return nxt(pos, groups) if is_nl(s[pos]) else None
                if pos == n - 1 and is_nl(s[pos]):
                    return nxt(pos, groups)
                return None
            if av is sc.AT_END_STRING:
                return nxt(pos, groups) if pos == n else None
            raise Unsupported(f"regex anchor {av}")
        if op is sc.SUBPATTERN:
            gid, add_flags, del_flags, sub = av
            if add_flags or del_flags:
                raise Unsupported("regex inline flags")

            def after(p, g):
                if gid is not None:
                    g = dict(g)
                    g[gid] = (pos, p)
                return nxt(p, g)
            return m_seq(list(sub), 0, pos, groups, after)
        if op is sc.BRANCH:
            for alt in av[1]:
                r = m_seq(list(alt), 0, pos, groups, nxt)
                if r is not None:
                    return r
            return None
        if op in (sc.MAX_REPEAT, sc.MIN_REPEAT):
            lo, hi, sub = av
            sub = list(sub)
            greedy = op is sc.MAX_REPEAT

            def rep(count, p, g):
                def more():
                    if hi is sc.MAXREPEAT or count < hi:
                        def again(p2, g2):
                            if p2 == p and count >= lo:
                                return None   # no progress
                            return rep(count + 1, p2, g2)
                        return m_seq(sub, 0, p, g, again)
                    return None
                if greedy:
                    r = more()
                    if r is not None:
                        return r
                    return nxt(p, g) if count >= lo else None
                if count >= lo:
                    r = nxt(p, g)
                    if r is not None:
                        return r
                return more()
            return rep(0, pos, groups)
        if op is sc.GROUPREF:
            span = groups.get(av)
            if span is None:
                return None
            ref = s[span[0]:span[1]]
            if pos + len(ref) > n:
                return None
            r = rt.str_eq(mkstr(ref), mkstr(s[pos:pos + len(ref)]))
            if not rt.truth(r):
                return None
            return nxt(pos + len(ref), groups)
        if op in (sc.ASSERT, sc.ASSERT_NOT):
            direction, sub = av
            if direction != 1:
                raise Unsupported("regex lookbehind")
            r = m_seq(list(sub), 0, pos, groups, lambda p, g: (p, g))
            if op is sc.ASSERT:
                return nxt(pos, r[1]) if r is not None else None
            return nxt(pos, groups) if r is None else None
        raise Unsupported(f"regex op {op}")

    def done(p, g):
        if full and p != n:
            return None
        g = dict(g)
        g[0] = (pos, p)
        return Match(pat, s, g, string)
    return m_seq(list(tree), 0, pos, {}, done)


def _as_chars(x):
    if isinstance(x, OpaqueStr):
        raise Unsupported("regex on opaque string")
    return chars(x)


def p_match(pat, string, *rest):
    if not isinstance(string, Sym):
        return pat.match(string, *rest)
    if rest:
        raise Unsupported("match with pos")
    return match_at(pat, _as_chars(string), 0, string)


def p_fullmatch(pat, string, *rest):
    if not isinstance(string, Sym):
        return pat.fullmatch(string, *rest)
    return match_at(pat, _as_chars(string), 0, string, full=True)


def p_search(pat, string, *rest):
    if not isinstance(string, Sym):
        return pat.search(string, *rest)
    s = _as_chars(string)
    start = rest[0] if rest else 0
    for p in range(start, len(s) + 1):
        m = match_at(pat, s, p, string)
        if m is not None:
            return m
    return None


def p_finditer(pat, string, *rest):
    if not isinstance(string, Sym):
        return pat.finditer(string, *rest)
    return _finditer(pat, string)


def _finditer(pat, string):
    s = _as_chars(string)
    n = len(s)
    pos = 0
    while pos <= n:
        m = None
        p = pos
        while p <= n:
            m = match_at(pat, s, p, string)
            if m is not None:
                break
            p += 1
        if m is None:
            return
        yield m
        e = m.end()
        pos = e if e > m.start() else e + 1


def p_findall(pat, string, *rest):
    if not isinstance(string, Sym):
        return pat.findall(string, *rest)
    out = []
    for m in _finditer(pat, string):
        if pat.groups == 0:
            out.append(m.group(0))
        elif pat.groups == 1:
            out.append(m.group(1) or '')
        else:
            out.append(tuple(x if x is not None else '' for x in m.groups()))
    return out


def p_sub(pat, repl, string, count=0):
    if not isinstance(string, Sym) and not isinstance(repl, Sym):
        return pat.sub(repl, string, count)
    raise Unsupported("re.sub on symbolic string")


_PM = dict(match=p_match, fullmatch=p_fullmatch, search=p_search, finditer=p_finditer, findall=p_findall, sub=p_sub)


def _hook(o, name):
    if isinstance(o, re.Pattern):
        f = _PM.get(name)
        if f is not None:
            return rt.BoundModel(f, o)
    return NotImplemented


rt.GETATTR_HOOKS.append(_hook)
rt.MODELS[re.match] = lambda p, s, flags=0: p_match(re.compile(p, flags), s)
rt.MODELS[re.search] = lambda p, s, flags=0: p_search(re.compile(p, flags), s)
rt.MODELS[re.fullmatch] = lambda p, s, flags=0: p_fullmatch(re.compile(p, flags), s)
