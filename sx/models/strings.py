"""Models of str / bytes methods on symbolic strings (concrete length, symbolic characters)."""
import codecs
import z3
from .. import rt
from ..core import Sym, SymStr, SymChar, SymEnum, SymInt, SymBool, SymBytes, OpaqueStr, Unsupported, pytype
from ..rt import chars, mkstr, decide, char_in, str_eq, truth, E, is_ws, SYM_METHODS, CONC_METHODS, cterm


def _symarg(*a):
    return any(isinstance(x, Sym) for x in a) or rt.deep_sym(a)


def s_replace(s, old, new, count=-1):
    if not _symarg(s, old, new):
        return s.replace(old, new, count)
    hay, o, nw = chars(s), chars(old), chars(new)
    if not o:
        raise Unsupported("replace of empty string")
    out = []
    i = 0
    done = 0
    while i < len(hay):
        if (count < 0 or done < count) and i + len(o) <= len(hay) and truth(str_eq(mkstr(hay[i:i + len(o)]), mkstr(o))):
            out += nw
            i += len(o)
            done += 1
        else:
            out.append(hay[i])
            i += 1
    return mkstr(out)


def _strip_pred(arg):
    if arg is None:
        return is_ws
    if isinstance(arg, Sym):
        raise Unsupported("strip with symbolic chars argument")
    ranges = [(ord(c), ord(c)) for c in arg]
    return lambda c: (c in arg) if isinstance(c, str) else rt.char_test(c, ranges)


def s_strip(s, arg=None):
    if not _symarg(s, arg):
        return s.strip(arg)
    cs = chars(s)
    p = _strip_pred(arg)
    i = 0
    while i < len(cs) and p(cs[i]):
        i += 1
    j = len(cs)
    while j > i and p(cs[j - 1]):
        j -= 1
    return mkstr(cs[i:j])


def s_lstrip(s, arg=None):
    if not _symarg(s, arg):
        return s.lstrip(arg)
    cs = chars(s)
    p = _strip_pred(arg)
    i = 0
    while i < len(cs) and p(cs[i]):
        i += 1
    return mkstr(cs[i:])


def s_rstrip(s, arg=None):
    if not _symarg(s, arg):
        return s.rstrip(arg)
    cs = chars(s)
    p = _strip_pred(arg)
    j = len(cs)
    while j > 0 and p(cs[j - 1]):
        j -= 1
    return mkstr(cs[:j])


def s_startswith(s, p, *rest):
    if not _symarg(s, p):
        return s.startswith(p, *rest)
    if rest:
        raise Unsupported("startswith with bounds")
    if isinstance(p, tuple):
        return rt.or_(*[(lambda q=q: s_startswith(s, q)) for q in p])
    if isinstance(s, SymEnum) and isinstance(p, str):
        ks = [k for k, o in enumerate(s.options) if o.startswith(p)]
        if not ks:
            return False
        if len(ks) == len(s.options):
            return True
        return SymBool(z3.Or(*[s.idx == k for k in ks]))
    cs, pp = chars(s), chars(p)
    if len(pp) > len(cs):
        return False
    return str_eq(mkstr(cs[:len(pp)]), mkstr(pp))


def s_endswith(s, p, *rest):
    if not _symarg(s, p):
        return s.endswith(p, *rest)
    if rest:
        raise Unsupported("endswith with bounds")
    if isinstance(p, tuple):
        return rt.or_(*[(lambda q=q: s_endswith(s, q)) for q in p])
    cs, pp = chars(s), chars(p)
    if len(pp) > len(cs):
        return False
    return str_eq(mkstr(cs[len(cs) - len(pp):]), mkstr(pp))


def _case(s, to_lower):
    if isinstance(s, SymEnum):
        return SymEnum(s.idx, [(o.lower() if to_lower else o.upper()) for o in s.options])
    if isinstance(s, OpaqueStr):
        return s
    out = []
    for c in chars(s):
        if isinstance(c, str):
            out += list(c.lower() if to_lower else c.upper())
            continue
        # a small non-ASCII part of the domain (e.g. the characters whose case mapping lands in ASCII: Kelvin sign, long s,
        # dotless i, ligatures) is decided character by character, with Python's own (possibly multi-character) mapping
        nonascii = [cp for a, b in (c.dom or []) if b > 127 and b - max(a, 128) < 64 for cp in range(max(a, 128), b + 1)]
        hit = False
        if c.dom and 0 < len(nonascii) <= 64 and all(b <= 127 or b - max(a, 128) < 64 for a, b in c.dom):
            for cp in nonascii:
                r = char_in(c, [(cp, cp)])
                if r is True or (r is not False and decide(r)):
                    out += list(chr(cp).lower() if to_lower else chr(cp).upper())
                    hit = True
                    break
        if hit:
            continue
        ascii_only = char_in(c, [(0, 127)])
        if ascii_only is not True:
            if not decide(ascii_only):
                raise Unsupported("case mapping of non-ASCII symbolic character")
        lo, hi, d = (65, 90, 32) if to_lower else (97, 122, -32)
        r = char_in(c, [(lo, hi)])
        if r is False:
            out.append(c)
        elif r is True:
            out.append(SymChar(c.t + d, dom=[(a + d, b + d) for a, b in c.dom] if c.dom else None))
        else:
            dom = None
            if c.dom:
                dom = sorted(set((a, b) for a, b in c.dom) | {(lo + d, hi + d)})
            out.append(SymChar(z3.If(z3.And(c.t >= lo, c.t <= hi), c.t + d, c.t), dom=None))
    return mkstr(out)


def s_lower(s):
    return _case(s, True) if isinstance(s, Sym) else s.lower()


def s_upper(s):
    return _case(s, False) if isinstance(s, Sym) else s.upper()


def s_join(sep, parts):
    parts = list(rt.sx_iter(parts))
    if not _symarg(sep, *parts):
        return sep.join(parts)
    out = []
    for i, p in enumerate(parts):
        if isinstance(p, OpaqueStr):
            return OpaqueStr()
        if pytype(p) is not str:
            raise TypeError("sequence item: expected str instance")
        if i:
            out += chars(sep)
        out += chars(p)
    return mkstr(out)


def s_split(s, sep=None, maxsplit=-1):
    if not _symarg(s, sep):
        return s.split(sep, maxsplit)
    cs = chars(s)
    if sep is None:
        out, cur = [], []
        n = 0
        i = 0
        while i < len(cs):
            c = cs[i]
            if is_ws(c):
                if cur:
                    out.append(mkstr(cur))
                    cur = []
                    n += 1
                i += 1
                if maxsplit >= 0 and n >= maxsplit and not cur:
                    rest = cs[i:]
                    while rest and is_ws(rest[0]):
                        rest = rest[1:]
                    if rest:
                        out.append(mkstr(rest))
                    return out
            else:
                cur.append(c)
                i += 1
        if cur:
            out.append(mkstr(cur))
        return out
    sp = chars(sep)
    if not sp:
        raise ValueError("empty separator")
    out, cur = [], []
    i = 0
    n = 0
    while i < len(cs):
        if (maxsplit < 0 or n < maxsplit) and i + len(sp) <= len(cs) and truth(str_eq(mkstr(cs[i:i + len(sp)]), mkstr(sp))):
            out.append(mkstr(cur))
            cur = []
            i += len(sp)
            n += 1
        else:
            cur.append(cs[i])
            i += 1
    out.append(mkstr(cur))
    return out


def s_splitlines(s, keepends=False):
    if not isinstance(s, Sym):
        return s.splitlines(keepends)
    raise Unsupported("splitlines on symbolic str")


def s_zfill(s, width):
    if not _symarg(s):
        return s.zfill(width)
    cs = chars(s)
    if len(cs) >= width:
        return mkstr(cs)
    if cs:
        c0 = cs[0]
        signed = (c0 in '+-') if isinstance(c0, str) else rt.char_test(c0, [(43, 43), (45, 45)])
        if signed:
            return mkstr([c0] + ['0'] * (width - len(cs)) + cs[1:])
    return mkstr(['0'] * (width - len(cs)) + cs)


def _all_chars(s, ranges, py):
    if not isinstance(s, Sym):
        return py(s)
    cs = chars(s)
    if not cs:
        return False
    for c in cs:
        if isinstance(c, str):
            if not py(c):
                return False
        else:
            if rt.char_test(c, [(0, 127)]):
                if not rt.char_test(c, ranges):
                    return False
            else:
                raise Unsupported("character class of non-ASCII symbolic character")
    return True


def s_isdigit(s):
    return _all_chars(s, [(48, 57)], str.isdigit)


def s_isalpha(s):
    return _all_chars(s, [(65, 90), (97, 122)], str.isalpha)


def s_isalnum(s):
    return _all_chars(s, [(48, 57), (65, 90), (97, 122)], str.isalnum)


def s_isspace(s):
    return _all_chars(s, [(9, 13), (28, 32)], str.isspace)


def s_isupper(s):
    if not isinstance(s, Sym):
        return s.isupper()
    raise Unsupported("isupper on symbolic")


def s_find(s, sub, *rest):
    if not _symarg(s, sub):
        return s.find(sub, *rest)
    if rest:
        raise Unsupported("find with bounds")
    hay, nd = chars(s), chars(sub)
    for p in range(0, len(hay) - len(nd) + 1):
        if truth(str_eq(mkstr(hay[p:p + len(nd)]), mkstr(nd))):
            return p
    return -1


def s_index(s, sub, *rest):
    r = s_find(s, sub, *rest)
    if r == -1:
        raise ValueError("substring not found")
    return r


def s_count(s, sub):
    if not _symarg(s, sub):
        return s.count(sub)
    hay, nd = chars(s), chars(sub)
    i = n = 0
    while i + len(nd) <= len(hay):
        if truth(str_eq(mkstr(hay[i:i + len(nd)]), mkstr(nd))):
            n += 1
            i += max(len(nd), 1)
        else:
            i += 1
    return n


def s_partition(s, sep):
    if not _symarg(s, sep):
        return s.partition(sep)
    p = s_find(s, sep)
    cs = chars(s)
    if p < 0:
        return (mkstr(cs), '', '')
    n = len(chars(sep))
    return (mkstr(cs[:p]), sep, mkstr(cs[p + n:]))


# ---- codecs
_CODEC_TABLES = {}


def codec_name(enc):
    return codecs.lookup(enc).name


def _single_byte_table(name):
    """byte -> code point (or None) for a single-byte codec, read from the real codec."""
    t = _CODEC_TABLES.get(name)
    if t is None:
        t = []
        for b in range(256):
            try:
                t.append(ord(bytes([b]).decode(name)))
            except UnicodeDecodeError:
                t.append(None)
        _CODEC_TABLES[name] = t
    return t


def _ranges_of(vals):
    vals = sorted(vals)
    out = []
    for v in vals:
        if out and out[-1][1] == v - 1:
            out[-1] = (out[-1][0], v)
        else:
            out.append((v, v))
    return out


def s_encode(s, encoding='utf-8', errors='strict'):
    if not isinstance(s, Sym):
        return s.encode(encoding, errors)
    if errors != 'strict':
        raise Unsupported("encode errors=" + errors)
    name = codec_name(encoding)
    out = []
    for c in chars(s):
        if isinstance(c, str):
            out += list(c.encode(name))
            continue
        t = c.t
        if name == 'ascii':
            if not rt.char_test(c, [(0, 127)]):
                raise UnicodeEncodeError('ascii', '?', 0, 1, 'ordinal not in range(128)')
            out.append(t)
        elif name == 'iso8859-1':
            if not rt.char_test(c, [(0, 255)]):
                raise UnicodeEncodeError('latin-1', '?', 0, 1, 'ordinal not in range(256)')
            out.append(t)
        elif name == 'utf-8':
            if rt.char_test(c, [(0, 0x7F)]):
                out.append(t)
            elif rt.char_test(c, [(0x80, 0x7FF)]):
                out += [0xC0 + t / 64, 0x80 + t % 64]
            elif rt.char_test(c, [(0xD800, 0xDFFF)]):
                raise UnicodeEncodeError('utf-8', '?', 0, 1, 'surrogates not allowed')
            elif rt.char_test(c, [(0x800, 0xFFFF)]):
                out += [0xE0 + t / 4096, 0x80 + (t / 64) % 64, 0x80 + t % 64]
            else:
                out += [0xF0 + t / 262144, 0x80 + (t / 4096) % 64, 0x80 + (t / 64) % 64, 0x80 + t % 64]
        else:
            tab = _single_byte_table(name)
            inv = {}
            for b, cp in enumerate(tab):
                if cp is not None:
                    inv.setdefault(cp, b)
            same = [cp for cp, b in inv.items() if cp == b]
            if rt.char_test(c, _ranges_of(same)):
                out.append(t)
            else:
                for cp, b in inv.items():
                    if cp != b and rt.char_test(c, [(cp, cp)]):
                        out.append(b)
                        break
                else:
                    raise UnicodeEncodeError(name, '?', 0, 1, 'character maps to <undefined>')
    return SymBytes(out)


def b_decode(b, encoding='utf-8', errors='strict'):
    if not isinstance(b, Sym):
        return b.decode(encoding, errors)
    if errors != 'strict':
        raise Unsupported("decode errors=" + errors)
    name = codec_name(encoding)
    items = b.items
    out = []
    i = 0
    n = len(items)

    def dec(cond):
        return decide(cond)

    while i < n:
        it = items[i]
        if isinstance(it, int) and name != 'utf-8':
            try:
                out.append(bytes([it]).decode(name))
            except UnicodeDecodeError:
                raise UnicodeDecodeError(name, bytes([it]), 0, 1, 'invalid')
            i += 1
            continue
        if name == 'ascii':
            if not dec(it < 128):
                raise UnicodeDecodeError('ascii', b'?', 0, 1, 'ordinal not in range(128)')
            out.append(SymChar(it, dom=[(0, 127)]))
            i += 1
        elif name == 'iso8859-1':
            out.append(SymChar(it, dom=[(0, 255)]))
            i += 1
        elif name == 'utf-8':
            t = rt._bt(it)

            def cont(j):
                if j >= n:
                    return None
                return rt._bt(items[j])

            def is_cont(x):
                return dec(z3.And(x >= 0x80, x <= 0xBF))
            if dec(t < 0x80):
                out.append(chr(it) if isinstance(it, int) else SymChar(it, dom=[(0, 127)]))
                i += 1
            elif dec(z3.And(t >= 0xC2, t <= 0xDF)):
                c1 = cont(i + 1)
                if c1 is None or not is_cont(c1):
                    raise UnicodeDecodeError('utf-8', b'?', 0, 1, 'invalid continuation byte')
                out.append(_mkchar((t - 0xC0) * 64 + (c1 - 0x80), [(0x80, 0x7FF)]))
                i += 2
            elif dec(z3.And(t >= 0xE0, t <= 0xEF)):
                c1, c2 = cont(i + 1), cont(i + 2)
                if c1 is None or not is_cont(c1):
                    raise UnicodeDecodeError('utf-8', b'?', 0, 1, 'invalid continuation byte')
                if dec(z3.And(t == 0xE0, c1 < 0xA0)) or dec(z3.And(t == 0xED, c1 > 0x9F)):
                    raise UnicodeDecodeError('utf-8', b'?', 0, 1, 'invalid continuation byte')
                if c2 is None or not is_cont(c2):
                    raise UnicodeDecodeError('utf-8', b'?', 0, 1, 'invalid continuation byte')
                out.append(_mkchar((t - 0xE0) * 4096 + (c1 - 0x80) * 64 + (c2 - 0x80), [(0x800, 0xFFFF)]))
                i += 3
            elif dec(z3.And(t >= 0xF0, t <= 0xF4)):
                c1, c2, c3 = cont(i + 1), cont(i + 2), cont(i + 3)
                if c1 is None or not is_cont(c1):
                    raise UnicodeDecodeError('utf-8', b'?', 0, 1, 'invalid continuation byte')
                if dec(z3.And(t == 0xF0, c1 < 0x90)) or dec(z3.And(t == 0xF4, c1 > 0x8F)):
                    raise UnicodeDecodeError('utf-8', b'?', 0, 1, 'invalid continuation byte')
                if c2 is None or not is_cont(c2):
                    raise UnicodeDecodeError('utf-8', b'?', 0, 1, 'invalid continuation byte')
                if c3 is None or not is_cont(c3):
                    raise UnicodeDecodeError('utf-8', b'?', 0, 1, 'invalid continuation byte')
                out.append(_mkchar((t - 0xF0) * 262144 + (c1 - 0x80) * 4096 + (c2 - 0x80) * 64 + (c3 - 0x80), [(0x10000, 0x10FFFF)]))
                i += 4
            else:
                raise UnicodeDecodeError('utf-8', b'?', 0, 1, 'invalid start byte')
        else:
            tab = _single_byte_table(name)
            same = [bb for bb, cp in enumerate(tab) if cp == bb]
            if dec(rt.in_ranges_term(it, _ranges_of(same))):
                out.append(SymChar(it, dom=_ranges_of(same)))
            else:
                for bb, cp in enumerate(tab):
                    if cp != bb and dec(it == bb):
                        if cp is None:
                            raise UnicodeDecodeError(name, bytes([bb]), 0, 1, 'character maps to <undefined>')
                        out.append(chr(cp))
                        break
                else:
                    raise Unsupported("byte outside 0..255")
            i += 1
    return mkstr(out)


def _mkchar(t, dom):
    t = z3.simplify(t)
    if z3.is_int_value(t):
        return chr(t.as_long())
    return SymChar(t, dom=dom)


def b_strip(b, *a):
    if not isinstance(b, Sym):
        return b.strip(*a)
    raise Unsupported("bytes.strip")


for _n, _f in dict(replace=s_replace, strip=s_strip, lstrip=s_lstrip, rstrip=s_rstrip, startswith=s_startswith,
                   endswith=s_endswith, lower=s_lower, upper=s_upper, join=s_join, split=s_split, zfill=s_zfill,
                   isdigit=s_isdigit, isalpha=s_isalpha, isalnum=s_isalnum, isspace=s_isspace, find=s_find,
                   index=s_index, count=s_count, partition=s_partition, encode=s_encode, format=rt.s_format,
                   splitlines=s_splitlines, isupper=s_isupper).items():
    SYM_METHODS[(str, _n)] = _f
    CONC_METHODS[(str, _n)] = _f
def b_join(sep, parts):
    parts = list(rt.sx_iter(parts))
    if not _symarg(sep, *parts):
        return sep.join(parts)
    out = []
    for i, p in enumerate(parts):
        if pytype(p) is not bytes:
            raise TypeError("sequence item: expected a bytes-like object")
        if i:
            out += rt.bitems(sep)
        out += rt.bitems(p)
    return SymBytes(out)


SYM_METHODS[(bytes, 'decode')] = b_decode
SYM_METHODS[(bytes, 'strip')] = b_strip
SYM_METHODS[(bytes, 'join')] = b_join
CONC_METHODS[(bytes, 'join')] = b_join
