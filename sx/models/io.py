"""Model of a binary file object (io.BytesIO) over symbolic bytes."""
import io
import z3
from .. import rt
from ..core import Sym, SymBytes, SymInt, Unsupported


@rt.native
class FakeIO:
    """tell / seek / read / readline over a list of byte items (int | z3 term); mirrors io.BytesIO"""

    def __init__(self, items):
        self.items = list(items)
        self.pos = 0
        self.closed = False

    def tell(self):
        return self.pos

    def seek(self, n, whence=0):
        if isinstance(n, Sym):
            raise Unsupported("seek to symbolic offset")
        if whence == 0:
            if n < 0:
                raise ValueError("negative seek value")
            self.pos = n
        elif whence == 1:
            self.pos = max(0, self.pos + n)
        else:
            self.pos = max(0, len(self.items) + n)
        return self.pos

    def _mk(self, r):
        return SymBytes(r) if any(not isinstance(x, int) for x in r) else bytes(r)

    def read(self, n=-1):
        if n is None or n < 0:
            r = self.items[self.pos:]
        else:
            r = self.items[self.pos:self.pos + n]
        self.pos = min(len(self.items), self.pos + len(r)) if self.pos <= len(self.items) else self.pos
        return self._mk(r)

    def readline(self, size=-1):
        i = self.pos
        n = len(self.items)
        while i < n:
            it = self.items[i]
            i += 1
            if (it == 10) if isinstance(it, int) else rt.decide(it == 10):
                break
        r = self.items[self.pos:i]
        self.pos = max(self.pos, i) if self.pos <= n else self.pos
        return self._mk(r)

    def close(self):
        self.closed = True

    def __repr__(self):
        return "<FakeIO>"


def make_source(data):
    """binary source for parse_header: io.BytesIO natively, FakeIO for symbolic bytes"""
    if isinstance(data, SymBytes):
        return FakeIO(data.items)
    return io.BytesIO(data)


rt.NATIVE_FUNCS.add(make_source)
rt.MODELS[io.BytesIO] = lambda data=b"": make_source(data)
