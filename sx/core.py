"""sx core: symbolic value kinds and the path-exploring engine.

The engine explores a harness function depth-first by re-execution: every
symbolic truth test goes through Engine.branch(), which asks z3 which sides are
feasible and records a decision; after a path ends the last open decision is
flipped and the harness is run again following the recorded prefix.
"""
import time, os, subprocess, tempfile
import z3


class Unsupported(BaseException):
    """A construct with no model: the path (and harness instance) is inconclusive."""


class PathAbort(BaseException):
    """Current path is infeasible / cut by an assumption."""


class BudgetExceeded(BaseException):
    pass


# ---------------------------------------------------------------- values
class Sym:
    pytype = object

    def __deepcopy__(self, memo):
        return self

    def __copy__(self):
        return self

    def __bool__(self):
        raise Unsupported(f"native truth test on {type(self).__name__}")

    def __eq__(self, o):
        if o is self:
            return True
        raise Unsupported(f"native == on {type(self).__name__}")

    def __ne__(self, o):
        if o is self:
            return False
        raise Unsupported(f"native != on {type(self).__name__}")

    def __hash__(self):
        return id(self)

    def __len__(self):
        raise Unsupported(f"native len on {type(self).__name__}")

    def __iter__(self):
        raise Unsupported(f"native iter on {type(self).__name__}")

    def __str__(self):
        raise Unsupported(f"native str() on {type(self).__name__}")

    def __format__(self, spec):
        raise Unsupported(f"native format on {type(self).__name__}")

    def __int__(self):
        raise Unsupported(f"native int() on {type(self).__name__}")

    def __index__(self):
        raise Unsupported(f"native index on {type(self).__name__}")


class SymInt(Sym):
    pytype = int

    def __init__(self, t):
        self.t = t

    def __repr__(self):
        return f"SymInt({self.t})"


class SymBool(Sym):
    pytype = bool

    def __init__(self, t):
        self.t = t

    def __repr__(self):
        return f"SymBool({self.t})"


class SymChar(Sym):
    """One character: z3 Int code point `t`; `dom` = sorted list of (lo, hi) ranges or None."""
    pytype = str

    def __init__(self, t, dom=None, run=None):
        self.t = t
        self.dom = dom
        self.run = run

    def __repr__(self):
        return f"<{self.t}>"


class SymStr(Sym):
    """String of concrete length; items are 1-char str or SymChar."""
    pytype = str

    def __init__(self, items):
        self.items = list(items)

    def __repr__(self):
        return "SymStr(%s)" % "".join(c if isinstance(c, str) else "¿" for c in self.items)


class SymEnum(Sym):
    """Symbolic choice among concrete python values: idx term selects options[idx]."""

    def __init__(self, idx, options):
        self.idx, self.options = idx, list(options)

    @property
    def pytype(self):
        return type(self.options[0])

    def __repr__(self):
        return f"SymEnum({self.idx},{self.options})"


class OpaqueStr(Sym):
    """Text that only flows into messages / logging."""
    pytype = str

    def __repr__(self):
        return "OpaqueStr"

    def __str__(self):
        return "<opaque>"

    def __format__(self, spec):
        return "<opaque>"


class SymBytes(Sym):
    """bytes of concrete length; items are int or z3 Int term (0..255)."""
    pytype = bytes

    def __init__(self, items):
        self.items = list(items)

    def __repr__(self):
        return f"SymBytes(len={len(self.items)})"


def is_sym(v):
    return isinstance(v, Sym)


def pytype(v):
    return v.pytype if isinstance(v, Sym) else type(v)


# ---------------------------------------------------------------- engine
_EXT_Z3 = "/usr/bin/z3"


class Engine:
    def __init__(self, timeout_ms=10000, mode="fresh", max_paths=100000, wall_s=None, external=True):
        self.timeout_ms = timeout_ms
        self.mode = mode
        self.max_paths = max_paths
        self.wall_s = wall_s
        self.external = external
        self.stats = dict(paths=0, forks=0, queries=0, sat=0, unsat=0, unknown=0, solver_s=0.0,
                          model_hits=0, aborted=0, unsupported=0, interval_hits=0)
        self.decisions = []
        self.pos = 0
        self.pc = []
        self.pc_ids = []
        self.decided = {}
        self.defs = []
        self.var_bounds = {}
        self._bcache = {}
        self.model = None
        self._inc = None
        self._frames = []
        self._fresh_ctr = 0
        self._keep = []
        self._dv = []
        self._dv_model = None
        self.t0 = time.time()
        self.path_hooks = []      # callables run at start of every path (reset counters, traces)
        self._empty_model = None

    # --- fresh names (deterministic per path)
    def fresh(self, prefix):
        self._fresh_ctr += 1
        return z3.Int(f"{prefix}!{self._fresh_ctr}")

    def fresh_bool(self, prefix):
        self._fresh_ctr += 1
        return z3.Bool(f"{prefix}!{self._fresh_ctr}")

    def _push(self, cond):
        self.pc.append(cond)
        self.pc_ids.append(cond.get_id())
        self._keep.append(cond)

    def define(self, var, term, assert_eq=True):
        """var is a fresh variable equal to term on this path (definitional extension: no query needed).
        With assert_eq=False the equality is used only to evaluate conditions under the cached model."""
        self.defs.append((var, term))
        if assert_eq:
            self._push(var == term)
        # extend the cached model of the path condition with the defined value (models returned by the solver
        # later on already satisfy the lemmas that pin the variable down)
        if self.model is not None:
            try:
                self.model.update_value(var, self.model.eval(term, model_completion=True))
            except z3.Z3Exception:
                self.model = None

    def lemma(self, cond):
        """a fact implied by the current path condition and definitions (trusted; no query)"""
        self._push(cond)

    # --- solving
    def _mk_solver(self):
        s = z3.Solver()
        s.set("timeout", self.timeout_ms)
        return s

    def _check_fresh(self, conds, timeout_ms=None):
        s = self._mk_solver()
        if timeout_ms:
            s.set("timeout", timeout_ms)
        s.add(*conds)
        r = s.check()
        return str(r), (s.model() if r == z3.sat else None), s

    def _check_inc(self, extra):
        if self._inc is None:
            self._inc = self._mk_solver()
            self._frames = []
        fr = self._frames
        ids = self.pc_ids
        i = 0
        while i < len(fr) and i < len(ids) and fr[i] == ids[i]:
            i += 1
        while len(fr) > i:
            self._inc.pop()
            fr.pop()
        for k in range(i, len(self.pc)):
            self._inc.push()
            self._inc.add(self.pc[k])
            fr.append(ids[k])
        self._inc.push()
        self._inc.add(*extra)
        r = self._inc.check()
        m = self._inc.model() if r == z3.sat else None
        self._inc.pop()
        return str(r), m

    def check(self, *extra, portfolio=False, timeout_ms=None):
        """Satisfiability of pc + extra.  Returns ('sat'|'unsat'|'unknown', model)."""
        if self.wall_s is not None and time.time() - self.t0 > self.wall_s:
            raise BudgetExceeded("wall")
        t = time.time()
        self.stats["queries"] += 1
        r, m = None, None
        if self.mode == "inc" and not timeout_ms:
            r, m = self._check_inc(extra)
        if r is None or r == "unknown":
            r, m, s = self._check_fresh(list(self.pc) + list(extra), timeout_ms)
            if r == "unknown" and portfolio and self.external:
                r2 = self._check_external(s)
                if r2 == "unsat":
                    r = "unsat"
                elif r2 == "sat":
                    # need a model: retry with longer timeout, else stay unknown
                    r3, m3, _ = self._check_fresh(list(self.pc) + list(extra), (timeout_ms or self.timeout_ms) * 4)
                    if r3 == "sat":
                        r, m = r3, m3
        self.stats[r] += 1
        self.stats["solver_s"] += time.time() - t
        return r, m

    def _check_external(self, solver):
        try:
            txt = solver.to_smt2()
            with tempfile.NamedTemporaryFile("w", suffix=".smt2", delete=False, dir="/dev/shm" if os.path.isdir("/dev/shm") else None) as f:
                f.write(txt)
                fn = f.name
            try:
                out = subprocess.run([_EXT_Z3, f"-T:{max(10, self.timeout_ms // 1000 * 3)}", fn],
                                     capture_output=True, text=True, timeout=self.timeout_ms / 1000 * 3 + 15).stdout
            finally:
                os.unlink(fn)
            if "(error" in out:
                return "unknown"
            first = out.strip().splitlines()[0].strip() if out.strip() else "unknown"
            return first if first in ("sat", "unsat") else "unknown"
        except Exception:
            return "unknown"

    def _eval(self, cond):
        """Truth of cond under the cached model of the current pc, or None."""
        if self.model is None:
            return None
        try:
            v = self.model.eval(cond, model_completion=True)
        except z3.Z3Exception:
            return None
        if z3.is_true(v):
            return True
        if z3.is_false(v):
            return False
        return None

    def _root_model(self):
        if self._empty_model is None:
            s = z3.Solver()
            s.check()
            self._empty_model = s.model()
        return self._empty_model

    def assume(self, cond):
        if isinstance(cond, bool):
            if not cond:
                self.stats["aborted"] += 1
                raise PathAbort()
            return
        cond = z3.simplify(cond)
        if z3.is_true(cond):
            return
        if z3.is_false(cond):
            self.stats["aborted"] += 1
            raise PathAbort()
        if self.pos < len(self.decisions):
            d = self.decisions[self.pos]
            self.pos += 1
            self._push(cond)
            if d[0] == "assume":
                self.model = d[3] if self.pos == len(self.decisions) else self.model
                return
            raise RuntimeError("decision stack out of sync (assume)")
        ev = self._eval(cond)
        if ev is True:
            self.stats["model_hits"] += 1
            m = self.model
        else:
            r, m = self.check(cond)
            if r == "unsat":
                self.stats["aborted"] += 1
                raise PathAbort()
            if r == "unknown":
                m = None
        self.decisions.append(["assume", False, None, m])
        self.pos += 1
        self._push(cond)
        self.model = m

    # --- cheap interval reasoning (pre-check before asking the solver)
    def set_bounds(self, var, lo, hi):
        self.var_bounds[var.get_id()] = (lo, hi)
        self._keep.append(var)

    def bounds(self, t, depth=0):
        """(lo, hi) enclosing the Int term t under the registered variable bounds, or None"""
        if depth > 40:
            return None
        if z3.is_int_value(t):
            v = t.as_long()
            return (v, v)
        tid = t.get_id()
        b = self.var_bounds.get(tid)
        if b is not None:
            return b
        b = self._bcache.get(tid, 0)
        if b != 0:
            return b
        k = t.decl().kind() if z3.is_app(t) else None
        r = None
        ch = t.children() if z3.is_app(t) else []
        if k == z3.Z3_OP_ADD:
            lo = hi = 0
            for c in ch:
                cb = self.bounds(c, depth + 1)
                if cb is None:
                    lo = None
                    break
                lo += cb[0]
                hi += cb[1]
            r = None if lo is None else (lo, hi)
        elif k == z3.Z3_OP_SUB and len(ch) == 2:
            a, c = self.bounds(ch[0], depth + 1), self.bounds(ch[1], depth + 1)
            r = None if a is None or c is None else (a[0] - c[1], a[1] - c[0])
        elif k == z3.Z3_OP_UMINUS:
            a = self.bounds(ch[0], depth + 1)
            r = None if a is None else (-a[1], -a[0])
        elif k == z3.Z3_OP_MUL and len(ch) == 2:
            a, c = self.bounds(ch[0], depth + 1), self.bounds(ch[1], depth + 1)
            if a is not None and c is not None:
                ps = [a[0] * c[0], a[0] * c[1], a[1] * c[0], a[1] * c[1]]
                r = (min(ps), max(ps))
        elif k == z3.Z3_OP_ITE:
            a, c = self.bounds(ch[1], depth + 1), self.bounds(ch[2], depth + 1)
            r = None if a is None or c is None else (min(a[0], c[0]), max(a[1], c[1]))
        elif k in (z3.Z3_OP_IDIV, z3.Z3_OP_DIV) and z3.is_int_value(ch[1]) and ch[1].as_long() > 0:
            a = self.bounds(ch[0], depth + 1)
            d = ch[1].as_long()
            r = None if a is None else (a[0] // d, a[1] // d)
        elif k == z3.Z3_OP_MOD and z3.is_int_value(ch[1]) and ch[1].as_long() > 0:
            d = ch[1].as_long()
            a = self.bounds(ch[0], depth + 1)
            r = (0, d - 1)
            if a is not None and a[0] >= 0 and a[1] < d:
                r = a
        self._bcache[tid] = r
        self._keep.append(t)
        return r

    def _interval_decide(self, cond):
        """True / False when the (non-negated) comparison is decided by interval bounds, else None"""
        if not z3.is_app(cond) or cond.num_args() != 2:
            return None
        k = cond.decl().kind()
        if k not in (z3.Z3_OP_LE, z3.Z3_OP_GE, z3.Z3_OP_LT, z3.Z3_OP_GT, z3.Z3_OP_EQ):
            return None
        x, y = cond.arg(0), cond.arg(1)
        if not z3.is_int(x):
            return None
        a, b = self.bounds(x), self.bounds(y)
        if a is None or b is None:
            return None
        if k == z3.Z3_OP_LE:
            return True if a[1] <= b[0] else (False if a[0] > b[1] else None)
        if k == z3.Z3_OP_LT:
            return True if a[1] < b[0] else (False if a[0] >= b[1] else None)
        if k == z3.Z3_OP_GE:
            return True if a[0] >= b[1] else (False if a[1] < b[0] else None)
        if k == z3.Z3_OP_GT:
            return True if a[0] > b[1] else (False if a[1] <= b[0] else None)
        if k == z3.Z3_OP_EQ:
            if a[1] < b[0] or b[1] < a[0]:
                return False
            if a[0] == a[1] == b[0] == b[1]:
                return True
        return None

    def branch(self, cond):
        """Decide a symbolic condition; forks when both sides are feasible."""
        if isinstance(cond, bool):
            return cond
        cond = z3.simplify(cond)
        if z3.is_true(cond):
            return True
        if z3.is_false(cond):
            return False
        neg = False
        if z3.is_not(cond):
            cond = cond.arg(0)
            neg = True
        cid = cond.get_id()
        prev = self.decided.get(cid)
        if prev is not None:
            return prev != neg
        iv = self._interval_decide(cond)
        if iv is not None:
            self.stats["interval_hits"] += 1
            self.decided[cid] = iv
            self._keep.append(cond)
            return iv != neg
        side = self._branch(cond)
        self.decided[cid] = side
        self._keep.append(cond)
        return side != neg

    def _branch(self, cond):
        if self.pos < len(self.decisions):
            d = self.decisions[self.pos]
            self.pos += 1
            if d[0] == "assume":
                raise RuntimeError("decision stack out of sync (branch)")
            if len(d) > 4 and d[4] != cond.hash():
                # the code under analysis took its decisions in another order than on the previous execution of this
                # prefix (e.g. iteration over a set of objects hashed by address): replay by position is not valid
                raise Unsupported("re-execution is not deterministic: decision order differs between runs of one path prefix")
            side = d[0]
            self._push(cond if side else z3.Not(cond))
            if self.pos == len(self.decisions):
                self.model = d[3]
            return side
        ncond = z3.Not(cond)
        ev = self._eval(cond)
        if ev is not None:
            self.stats["model_hits"] += 1
            side = ev
            other = ncond if side else cond
            r, m = self.check(other)
            other_feasible = r != "unsat"
            alt_model = m if r == "sat" else None
            cur_model = self.model
        else:
            r1, m1 = self.check(cond)
            r2, m2 = self.check(ncond)
            if r1 == "unsat" and r2 == "unsat":
                self.stats["aborted"] += 1
                raise PathAbort()
            if r1 != "unsat":
                side, cur_model = True, m1
                other_feasible, alt_model = r2 != "unsat", m2
            else:
                side, cur_model = False, m2
                other_feasible, alt_model = False, None
        if other_feasible:
            self.stats["forks"] += 1
        self.decisions.append([side, other_feasible, alt_model, cur_model, cond.hash()])
        self.pos += 1
        self._push(cond if side else ncond)
        self.model = cur_model
        return side

    def choose(self, n, label="choice"):
        """Fork over range(n) (a free symbolic choice); returns a concrete int."""
        if n <= 1:
            return 0
        v = self.fresh(label)
        self.assume(z3.And(v >= 0, v < n))
        for k in range(n - 1):
            if self.branch(v == k):
                return k
        return n - 1

    def explore(self, fn):
        """Generator of (pc, model, outcome) per completed path.
        outcome = ('ok', value) | ('exc', exception) | ('unsupported', msg)"""
        self.decisions = []
        while True:
            self.pos = 0
            self.pc = []
            self.pc_ids = []
            self._keep = []
            self.decided = {}
            self.defs = []
            self.var_bounds = {}
            self._bcache = {}
            self.model = self._root_model()
            self._fresh_ctr = 0
            for h in self.path_hooks:
                h()
            out = None
            try:
                out = ("ok", fn(self))
            except PathAbort:
                out = None
            except Unsupported as e:
                self.stats["unsupported"] += 1
                out = ("unsupported", str(e))
            except BudgetExceeded:
                raise
            except RecursionError as e:
                self.stats["unsupported"] += 1
                out = ("unsupported", "RecursionError")
            except Exception as e:
                out = ("exc", e)
            if out is not None:
                self.stats["paths"] += 1
                yield list(self.pc), self.model, out
            # drop decisions beyond the point reached
            del self.decisions[self.pos:]
            while self.decisions and not (self.decisions[-1][0] != "assume" and self.decisions[-1][1]):
                self.decisions.pop()
            if not self.decisions:
                return
            d = self.decisions[-1]
            self.decisions[-1] = [not d[0], False, None, d[2]] + d[4:]
            if self.stats["paths"] >= self.max_paths:
                raise BudgetExceeded("paths")
            if self.wall_s is not None and time.time() - self.t0 > self.wall_s:
                raise BudgetExceeded("wall")

    def diverse_models(self, pc, k=3, timeout_ms=3000):
        """up to k models of pc that differ from one another in as many input variables (consts named in!...) as a few
        greedy queries can arrange - used only to complete paths the models could not finish with concrete runs"""
        s = self._mk_solver()
        s.set("timeout", timeout_ms)
        s.add(*pc)
        if str(s.check()) != "sat":
            return []
        out = [s.model()]
        seen, vars_, todo = set(), [], list(pc)
        while todo:
            t = todo.pop()
            tid = t.get_id()
            if tid in seen:
                continue
            seen.add(tid)
            if z3.is_const(t) and t.decl().kind() == z3.Z3_OP_UNINTERPRETED:
                if t.decl().name().startswith("in!"):
                    vars_.append(t)
                continue
            todo.extend(t.children())
            if len(seen) > 200000:
                break
        ints = [v for v in vars_ if z3.is_int(v)]
        for _j in range(1, k):
            depth = 0
            if _j == 1 and len(ints) > 1:
                # the second witness: inputs also differ from one another where the path allows it (two hosts, two ids, ...)
                s.push()
                s.add(z3.Distinct(*ints))
                if str(s.check()) == "sat":
                    depth += 1
                else:
                    s.pop()
                    # at least neighbouring inputs differ
                    for a, b in zip(ints, ints[1:]):
                        s.push()
                        s.add(a != b)
                        if str(s.check()) == "sat":
                            depth += 1
                        else:
                            s.pop()
            for m in out:
                stack = [[v != m.eval(v, model_completion=True) for v in vars_]]
                budget = 10
                while stack and budget > 0:
                    cs = stack.pop()
                    budget -= 1
                    if not cs:
                        continue
                    s.push()
                    s.add(*cs)
                    if str(s.check()) == "sat":
                        depth += 1
                        continue
                    s.pop()
                    if len(cs) > 1:
                        mid = len(cs) // 2
                        stack += [cs[mid:], cs[:mid]]
            got = s.model() if str(s.check()) == "sat" else None
            for _i in range(depth):
                s.pop()
            if got is None:
                break
            out.append(got)
        return out

    def model_for_pc(self, pc=None):
        """A model of the current (or given) path condition."""
        if pc is None and self.model is not None:
            return self.model
        r, m, _ = self._check_fresh(list(self.pc if pc is None else pc))
        return m if r == "sat" else None


ENGINE = None


def engine():
    return ENGINE


def set_engine(e):
    global ENGINE
    ENGINE = e
    return e
