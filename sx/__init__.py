"""sx: source-instrumented symbolic execution of the repository's Python with z3."""
