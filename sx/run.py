"""Harness framework: dual-mode inputs, obligations, per-path witness validation, known findings,
parallel instance runner, evidence and replay files."""
import json, os, sys, time, hashlib, traceback, multiprocessing, signal, random
import z3
from . import core, rt
from .core import Sym, SymInt, SymBool, SymChar, SymStr, SymEnum, SymBytes, Unsupported, PathAbort, BudgetExceeded
from .instrument import instrumented, INSTRUMENTED_LOG

VERIF = os.path.dirname(os.path.dirname(os.path.abspath(__file__)))
KNOWN_FILE = os.path.join(VERIF, "known_findings.json")


def alpha(spec):
    """'A-Z0-9._' -> sorted list of (lo, hi) code point ranges.  '\\-' for a literal dash; also accepts lists."""
    if not isinstance(spec, str):
        return sorted((int(a), int(b)) for a, b in spec)
    out = []
    i = 0
    while i < len(spec):
        c = spec[i]
        if c == '\\' and i + 1 < len(spec):
            c = spec[i + 1]
            i += 1
        if i + 2 < len(spec) and spec[i + 1] == '-':
            out.append((ord(c), ord(spec[i + 2])))
            i += 3
        else:
            out.append((ord(c), ord(c)))
            i += 1
    out.sort()
    merged = []
    for lo, hi in out:
        if merged and lo <= merged[-1][1] + 1:
            merged[-1] = (merged[-1][0], max(hi, merged[-1][1]))
        else:
            merged.append((lo, hi))
    return merged


PRINTABLE = [(0x20, 0x7E), (0xA0, 0xFF), (0x100, 0x100), (0x20AC, 0x20AC), (0x4E2D, 0x4E2D)]   # Σp of DESIGN §3
TAGCHARS = alpha("A-Z0-9._")


def load_known():
    try:
        with open(KNOWN_FILE) as f:
            return json.load(f)
    except FileNotFoundError:
        return []


def active_findings(pid):
    return {e["id"]: e for e in load_known() if e.get("property") == pid and e.get("status") == "finding"}


class CheckFailed(Exception):
    pass


_MISSING = object()


@rt.native
class Ctx:
    """Handed to every harness.  mode 'sym': inputs are symbolic, checks are solver obligations.
    mode 'conc': inputs come from a dict (a z3 model or a replay file), checks are evaluated natively."""

    def __init__(self, mode, inputs=None, active=None, engine=None):
        self.mode = mode
        self.inputs = {} if inputs is None else inputs
        self.active = active or {}
        self.eng = engine
        self.decl = {}            # name -> symbolic value (sym mode)
        self.checks = []          # (label, value)  value: bool | SymBool
        self.failed = []          # (label, model|None)           sym mode candidates
        self.obs = []             # (key, value)
        self.known_hits = []
        self.n_obl = 0
        self.n_discharged = 0
        self.unknown = []
        self.tags = []
        self._stubs, self._overrides, self._attr_overrides, self._globals = [], [], [], []
        self.lenient = False

    # ---- inputs
    def _get(self, name, default=None):
        if name not in self.inputs:
            if self.lenient:
                v = default() if callable(default) else default
                self.inputs[name] = v
                return v
            raise KeyError(f"replay input {name!r} missing")
        return self.inputs[name]

    def int(self, name, lo, hi):
        if self.mode == 'conc':
            return self._get(name, lo)
        v = z3.Int("in!" + name)
        self.eng.assume(z3.And(v >= lo, v <= hi))
        self.eng.set_bounds(v, lo, hi)
        r = SymInt(v)
        self.decl[name] = r
        return r

    def bool(self, name):
        """symbolic flag, decided immediately (forks): returns a python bool"""
        if self.mode == 'conc':
            return self._get(name, False)
        v = z3.Bool("in!" + name)
        r = self.eng.branch(v)
        self.decl[name] = SymBool(v)
        return r

    def symbool(self, name):
        if self.mode == 'conc':
            return self._get(name, False)
        r = SymBool(z3.Bool("in!" + name))
        self.decl[name] = r
        return r

    def char(self, name, alphabet):
        if self.mode == 'conc':
            return self._get(name)
        s = self.str(name, 1, alphabet)
        return s

    def str(self, name, n, alphabet):
        """string of exactly n characters over alphabet (ranges or alpha() spec)"""
        if self.mode == 'conc':
            return self._get(name, lambda: chr(alpha(alphabet)[0][0]) * n)
        dom = alpha(alphabet)
        items = []
        cons = []
        for i in range(n):
            v = z3.Int(f"in!{name}!{i}")
            cons.append(rt.in_ranges_term(v, dom))
            self.eng.set_bounds(v, dom[0][0], dom[-1][1])
            items.append(SymChar(v, dom=dom))
        if cons:
            self.eng.assume(z3.And(*cons))
        r = SymStr(items) if items else ""
        self.decl[name] = r
        return r

    def strlen(self, name, lo, hi, alphabet):
        """string of lo..hi characters (the length is decided by forking)"""
        if self.mode == 'conc':
            return self._get(name, lambda: chr(alpha(alphabet)[0][0]) * lo)
        n = lo + self.eng.choose(hi - lo + 1, "len_" + name)
        return self.str(name, n, alphabet)

    def bytes(self, name, n, ranges=((0, 255),)):
        if self.mode == 'conc':
            return self._get(name, lambda: bytes([ranges[0][0]]) * n)
        items = []
        cons = []
        for i in range(n):
            v = z3.Int(f"in!{name}!{i}")
            cons.append(rt.in_ranges_term(v, ranges))
            items.append(v)
        if cons:
            self.eng.assume(z3.And(*cons))
        r = SymBytes(items) if items else b""
        self.decl[name] = r
        return r

    def choice(self, name, options):
        """one of the options, decided immediately (forks): returns the concrete option"""
        if self.mode == 'conc':
            return options[self._get(name, 0)]
        v = z3.Int("in!" + name)
        self.eng.assume(z3.And(v >= 0, v < len(options)))
        self.decl[name] = SymInt(v)
        for k in range(len(options) - 1):
            if self.eng.branch(v == k):
                return options[k]
        return options[-1]

    def enum(self, name, options):
        """symbolic choice kept symbolic (SymEnum)"""
        if self.mode == 'conc':
            return options[self._get(name, 0)]
        v = z3.Int("in!" + name)
        self.eng.assume(z3.And(v >= 0, v < len(options)))
        self.decl[name] = SymInt(v)
        return SymEnum(v, options)

    def datetime(self, name, year_lo=1900, year_hi=2200, tz=None):
        if self.mode == 'conc':
            import datetime as _d
            return self._get(name, lambda: _d.datetime(year_lo, 1, 1, tzinfo=tz))
        from .models import dt
        r = dt.sym_datetime(name, year_lo, year_hi, tz)
        self.decl[name] = r
        return r

    def time(self, name, tz=None):
        if self.mode == 'conc':
            import datetime as _d
            return self._get(name, lambda: _d.time(0, 0, 0, tzinfo=tz))
        from .models import dt
        r = dt.sym_time(name, tz)
        self.decl[name] = r
        return r

    def tz(self, name, lo=-720, hi=840, tzname=None):
        """fixed-offset tzinfo with a symbolic whole-minute offset; tzname: None | str | symbolic str"""
        from .models import dt
        if self.mode == 'conc':
            return dt.FixedTz(self._get(name, max(lo, min(0, hi))), tzname)
        r = dt.sym_tz(name, lo, hi, tzname)
        self.decl[name] = SymInt(r.off_min)
        return r

    def decimal(self, name, max_coef, exp):
        """finite Decimal with symbolic sign and coefficient 0..max_coef and the given (concrete) exponent"""
        if self.mode == 'conc':
            import decimal as _dec
            return self._get(name, lambda: _dec.Decimal((0, (0,), exp)))
        from .models import dec
        r = dec.sym_decimal(name, max_coef, exp)
        self.decl[name] = r
        return r

    def given(self, name, value):
        """record a symbolic value built by the harness itself (e.g. by a model constructor) as a named input"""
        if self.mode == 'conc':
            return self._get(name)
        self.decl[name] = value
        return value

    # ---- assumptions / obligations
    def assume(self, cond):
        if self.mode == 'conc':
            if not cond:
                raise PathAbort()
            return
        if isinstance(cond, SymBool):
            self.eng.assume(cond.t)
        elif isinstance(cond, Sym):
            if not rt.truth(cond):
                raise PathAbort()
        elif not cond:
            self.eng.stats["aborted"] += 1
            raise PathAbort()

    def check(self, label, cond):
        """obligation: cond must hold for every input on this path"""
        self.n_obl += 1
        if self.mode == 'conc':
            ok = bool(cond)
            self.checks.append((label, ok))
            return ok
        if isinstance(cond, Sym) and not isinstance(cond, SymBool):
            cond = rt.m_bool(cond)
        self.checks.append((label, cond))
        if isinstance(cond, SymBool):
            c = z3.simplify(cond.t)
            if z3.is_true(c):
                self.n_discharged += 1
                return True
            r, m = self.eng.check(z3.Not(c), portfolio=True)
            if r == "unsat":
                self.n_discharged += 1
                return True
            if r == "sat":
                self.failed.append((label, m))
                return False
            self.unknown.append(label)
            return True
        if cond:
            self.n_discharged += 1
            return True
        self.failed.append((label, self.eng.model_for_pc()))
        return False

    def observe(self, key, value):
        """value that must agree between the symbolic run (under the path model) and the native run"""
        self.obs.append((key, value))

    def known(self, fid, cond=True):
        """Is this path inside the region of the listed known finding `fid`?  Inactive findings exclude nothing."""
        if fid not in self.active:
            return False
        if self.mode == 'conc':
            r = bool(cond)
        else:
            r = rt.truth(cond)
        if r:
            self.known_hits.append(fid)
        return r

    def tag(self, t):
        self.tags.append(t)

    # ---- environment stubs
    def stub(self, owner, name, replacement):
        """Replace attribute `name` of module/class `owner` by `replacement` for the rest of this run: natively by
        patching the attribute, symbolically by an identity override of the original callable (instrumented
        functions run in a snapshot of their module's globals, so patching alone would not reach them)."""
        import builtins
        missing = False
        if name in getattr(owner, "__dict__", {}):
            orig = owner.__dict__[name]
        elif hasattr(owner, name):
            orig = getattr(owner, name)
        else:
            orig = getattr(builtins, name)          # a builtin the module refers to as a global name (e.g. open)
            missing = True
        self._stubs.append((owner, name, _MISSING if missing else orig))
        if self.mode == 'sym':
            target = orig.__func__ if isinstance(orig, (classmethod, staticmethod)) else orig
            if callable(target):
                rt.OVERRIDES[id(target)] = replacement
                self._overrides.append(id(target))
            import types as _t
            if isinstance(owner, _t.ModuleType):
                from . import instrument
                instrument.set_global(owner.__name__, name, replacement)
                self._globals.append((owner.__name__, name))
        else:
            setattr(owner, name, replacement)

    def stub_attr(self, obj, name, value):
        """attribute (non-callable) replacement, e.g. config.DATADIR"""
        orig = getattr(obj, name)
        self._stubs.append((obj, name, orig))
        if self.mode == 'sym':
            rt.ATTR_OVERRIDES[(id(obj), name)] = value
            self._attr_overrides.append((id(obj), name))
            import types as _t
            if isinstance(obj, _t.ModuleType):
                from . import instrument
                instrument.set_global(obj.__name__, name, value)
                self._globals.append((obj.__name__, name))
        else:
            setattr(obj, name, value)

    def cleanup(self):
        for owner, name, orig in reversed(self._stubs):
            if self.mode != 'sym':
                try:
                    if orig is _MISSING:
                        delattr(owner, name)
                    else:
                        setattr(owner, name, orig)
                except (AttributeError, TypeError):
                    pass
        for k in self._overrides:
            rt.OVERRIDES.pop(k, None)
        for k in self._attr_overrides:
            rt.ATTR_OVERRIDES.pop(k, None)
        if self._globals:
            from . import instrument
            for m, n in self._globals:
                instrument.unset_global(m, n)
        self._stubs, self._overrides, self._attr_overrides, self._globals = [], [], [], []

    def ite(self, cond, a, b):
        """fork-free if-then-else on integers / booleans (oracle helper)"""
        if isinstance(cond, SymBool):
            if isinstance(a, (SymBool, bool)) and isinstance(b, (SymBool, bool)):
                return SymBool(z3.If(cond.t, rt.bterm(a), rt.bterm(b)))
            return SymInt(z3.If(cond.t, rt.iterm(a), rt.iterm(b)))
        return a if cond else b

    def all(self, conds):
        """fork-free conjunction"""
        conds = list(conds)
        if any(isinstance(c, SymBool) for c in conds):
            if any(c is False for c in conds):
                return False
            return SymBool(z3.And(*[rt.bterm(c) for c in conds if c is not True]))
        return all(conds)

    def any(self, conds):
        conds = list(conds)
        if any(isinstance(c, SymBool) for c in conds):
            if any(c is True for c in conds):
                return True
            return SymBool(z3.Or(*[rt.bterm(c) for c in conds if c is not False]))
        return any(conds)

    def floormod(self, x, b):
        """x mod b for a positive constant b; an If-chain over the few possible quotients when bounds are known"""
        if not isinstance(x, Sym):
            return x % b
        t = rt.iterm(x)
        bd = self.eng.bounds(t)
        if bd is not None and (bd[1] // b) - (bd[0] // b) <= 6:
            qlo, qhi = bd[0] // b, bd[1] // b
            r = t - qhi * b
            for q in range(qhi - 1, qlo - 1, -1):
                r = z3.If(t < (q + 1) * b, t - q * b, r)
            return SymInt(r)
        return SymInt(t % b)

    def implies(self, a, b):
        if isinstance(a, SymBool) or isinstance(b, SymBool):
            return SymBool(z3.Implies(rt.bterm(a), rt.bterm(b)))
        return (not a) or bool(b)

    def unsupported(self, why):
        if self.mode == 'sym':
            raise Unsupported(why)


def plain(v, depth=0):
    """normalise a (concrete) value into comparable, JSON-friendly data"""
    import datetime, decimal
    import xml.etree.ElementTree as ET
    if v is None or isinstance(v, (bool, int, str)):
        return v
    if isinstance(v, float):
        return repr(v)
    if isinstance(v, bytes):
        return {"__bytes__": list(v)}
    if isinstance(v, (datetime.datetime, datetime.time, datetime.date)):
        off = v.utcoffset() if not isinstance(v, datetime.date) or isinstance(v, datetime.datetime) else None
        return {"__dt__": v.isoformat(), "off": None if off is None else off.total_seconds()}
    if isinstance(v, datetime.timedelta):
        return {"__td_us__": v // datetime.timedelta(microseconds=1)}
    if isinstance(v, decimal.Decimal):
        return {"__dec__": str(v)}
    if isinstance(v, BaseException):
        return {"__exc__": type(v).__name__}
    if isinstance(v, type):
        return {"__type__": v.__name__}
    if isinstance(v, ET.Element):
        return {"tag": plain(v.tag), "text": plain(v.text), "tail": plain(v.tail), "children": [plain(c, depth + 1) for c in v]}
    if depth > 20:
        return "<deep>"
    from ofxtools.models.base import Aggregate
    if isinstance(v, Aggregate):
        d = {"__agg__": type(v).__name__}
        for k in type(v).spec_no_listaggregates:
            x = v.__dict__.get(k)
            if x is not None:
                d[k] = plain(x, depth + 1)
        if len(v):
            d["__list__"] = [plain(x, depth + 1) for x in list.__iter__(v)]
        return d
    if isinstance(v, dict):
        return {str(plain(k)): plain(x, depth + 1) for k, x in v.items()}
    if isinstance(v, (list, tuple, set, frozenset)):
        return [plain(x, depth + 1) for x in v]
    if hasattr(v, "__dict__") and type(v).__module__.startswith(("ofxtools", "harness")):
        return {"__obj__": type(v).__name__, **{k: plain(x, depth + 1) for k, x in vars(v).items() if not k.startswith('_')}}
    return repr(v)


def concretize_deep(v, model):
    """concretize symbolic members inside containers / Elements / Aggregates, then normalise"""
    import xml.etree.ElementTree as ET
    from ofxtools.models.base import Aggregate
    if isinstance(v, Sym):
        return plain(rt.concretize(v, model))
    if isinstance(v, ET.Element):
        return {"tag": concretize_deep(v.tag, model), "text": concretize_deep(v.text, model),
                "tail": concretize_deep(v.tail, model), "children": [concretize_deep(c, model) for c in v]}
    if isinstance(v, Aggregate):
        d = {"__agg__": type(v).__name__}
        for k in type(v).spec_no_listaggregates:
            x = v.__dict__.get(k)
            if x is not None:
                d[k] = concretize_deep(x, model)
        if list.__len__(v):
            d["__list__"] = [concretize_deep(x, model) for x in list.__iter__(v)]
        return d
    if isinstance(v, dict):
        return {str(concretize_deep(k, model)): concretize_deep(x, model) for k, x in v.items()}
    if isinstance(v, (list, tuple, set, frozenset)):
        return [concretize_deep(x, model) for x in v]
    if hasattr(v, "__dict__") and type(v).__module__.startswith(("ofxtools", "harness")) and not isinstance(v, (type, BaseException)):
        return {"__obj__": type(v).__name__, **{k: concretize_deep(x, model) for k, x in vars(v).items() if not k.startswith('_')}}
    return plain(v)


def model_inputs(decl, model):
    out = {}
    for name, v in decl.items():
        out[name] = rt.concretize(v, model) if isinstance(v, Sym) else v
    return out


def enc_inputs(inputs):
    import datetime as _d

    def e(v):
        if isinstance(v, bytes):
            return {"__bytes__": list(v)}
        if isinstance(v, _d.datetime):
            return {"__datetime__": [v.year, v.month, v.day, v.hour, v.minute, v.second, v.microsecond], "tz": _enc_tz(v.tzinfo)}
        if isinstance(v, _d.time):
            return {"__time__": [v.hour, v.minute, v.second, v.microsecond], "tz": _enc_tz(v.tzinfo)}
        import decimal as _dec
        if isinstance(v, _dec.Decimal):
            t = v.as_tuple()
            return {"__decimal__": [t.sign, list(t.digits), t.exponent]}
        if isinstance(v, (bool, int, str)) or v is None:
            return v
        return plain(v)
    return {k: e(v) for k, v in inputs.items()}


def _enc_tz(tz):
    if tz is None:
        return None
    import datetime as _d
    off = tz.utcoffset(None)
    return {"off_min": off // _d.timedelta(minutes=1), "name": tz.tzname(None), "utc": type(tz).__name__ == "_UTC"}


def _dec_tz(d):
    if d is None:
        return None
    if d.get("utc"):
        from ofxtools.utils import UTC
        return UTC
    from .models.dt import FixedTz
    return FixedTz(d["off_min"], d["name"])


def dec_inputs(d):
    import datetime as _d

    def de(v):
        if isinstance(v, dict) and "__bytes__" in v:
            return bytes(v["__bytes__"])
        if isinstance(v, dict) and "__datetime__" in v:
            return _d.datetime(*v["__datetime__"], tzinfo=_dec_tz(v["tz"]))
        if isinstance(v, dict) and "__time__" in v:
            return _d.time(*v["__time__"], tzinfo=_dec_tz(v["tz"]))
        if isinstance(v, dict) and "__decimal__" in v:
            import decimal as _dec
            sg, dg, ex = v["__decimal__"]
            return _dec.Decimal((sg, tuple(dg), ex))
        return v
    return {k: de(v) for k, v in d.items()}


def _exc_name(e):
    """exception class name as compared between the symbolic and the native run (the instrumented code reads an unbound local
    through a name look-up: NameError where python itself raises its subclass UnboundLocalError)"""
    return "NameError" if isinstance(e, NameError) else type(e).__name__


def run_native(fn, params, inputs, active, lenient=False):
    """Run harness natively on concrete inputs.  Returns dict(outcome, checks, obs, known).
    lenient: inputs the symbolic run had not declared yet get a default value (concolic completion of a cut path)."""
    import warnings
    import contextlib, io
    ctx = Ctx('conc', inputs=dict(inputs), active=active)
    ctx.lenient = lenient
    outcome = "ok"
    detail = None
    with warnings.catch_warnings(record=True) as wl, contextlib.redirect_stdout(io.StringIO()):
        warnings.simplefilter("always")
        try:
            fn(ctx, **params)
        except PathAbort:
            outcome = "abort"
        except Exception as e:
            outcome = "exc:" + _exc_name(e)
            detail = "".join(traceback.format_exception_only(type(e), e)).strip()[:300]
        finally:
            ctx.cleanup()
    return dict(outcome=outcome, detail=detail, checks=[(l, bool(v)) for l, v in ctx.checks],
                obs=[(k, plain(v)) for k, v in ctx.obs], known=list(ctx.known_hits), inputs=ctx.inputs)


def run_instance(inst):
    """Symbolically explore one harness instance.  inst: dict(pid, harness, fn, params, opts)."""
    fn, params, opts = inst["fn"], inst["params"], inst.get("opts", {})
    pid = inst["pid"]
    active = active_findings(pid)
    eng = core.Engine(timeout_ms=opts.get("timeout_ms", 10000), mode=opts.get("mode", "fresh"),
                      max_paths=opts.get("max_paths", 20000), wall_s=opts.get("wall_s", 120))
    core.set_engine(eng)
    g = instrumented(fn)
    if g is None:
        raise RuntimeError(f"harness {fn} not instrumentable")
    res = dict(name=inst["name"], paths=0, forks=0, obligations=0, discharged=0, validated=0, reached=0,
               violations=[], known={}, inconclusive=[], mismatches=[], samples=[], unknown=0, completions=0,
               wall_s=0.0, exhaustive=True, outcomes={})
    t0 = time.time()
    holder = {}

    def path(e):
        old = holder.get('ctx')
        if old is not None:
            old.cleanup()
        ctx = Ctx('sym', active=active, engine=e)
        holder['ctx'] = ctx
        rt.WARNINGS.clear()
        rt.LOGGED.clear()
        rt.WRITES.clear()
        rt._reset_runs()
        try:
            return g(ctx, **params)
        finally:
            ctx.cleanup()

    seen_viol = set()
    try:
        for pc, model, out in eng.explore(path):
            ctx = holder['ctx']
            kind = out[0]
            res["obligations"] += ctx.n_obl
            res["discharged"] += ctx.n_discharged
            res["unknown"] += len(ctx.unknown)
            for l in ctx.unknown:
                res["inconclusive"].append(f"solver unknown on obligation {l}")
            if kind == "unsupported":
                res["inconclusive"].append("unsupported: " + out[1][:160])
                res["exhaustive"] = False
                # concolic completion: solver witnesses for the part of the path that *was* encoded (up to three, made to differ
                # in as many inputs as possible) are run on the real code (inputs not reached yet get defaults); an obligation
                # failing there is a real violation.  This is a fallback for cut paths, not an exhaustive decision.
                try:
                    ms = [] if ctx.known_hits else (eng.diverse_models(pc, 3) if res["completions"] < 600 else [])
                    if not ms and not ctx.known_hits:
                        m = model if model is not None else eng.model_for_pc(pc)
                        ms = [m] if m is not None else []
                    if len(ms) == 1:
                        ms = ms * 3         # one model of the encoded prefix: the unconstrained inputs still vary between the runs
                    for j, m in enumerate(ms):
                        res["completions"] += 1
                        rt.CONC_SALT[0] = j
                        try:
                            inp = model_inputs(ctx.decl, m)
                        finally:
                            rt.CONC_SALT[0] = 0
                        nat = run_native(fn, params, inp, active, lenient=True)
                        bad = [l for l, ok in nat["checks"] if not ok]
                        if nat["outcome"].startswith("exc:"):
                            bad.append("uncaught:" + nat["outcome"][4:])
                        if bad and not nat["known"]:
                            if len(res["violations"]) < 3:
                                res["violations"].append(dict(label=bad[0], inputs=enc_inputs(nat["inputs"]), native=nat["outcome"],
                                                              detail=(nat["detail"] or "") + " [concrete completion of a path the models could not finish]"))
                            break
                except (Unsupported, KeyError):
                    pass
                continue
            okey = "ok" if kind == "ok" else "exc:" + _exc_name(out[1])
            res["outcomes"][okey] = res["outcomes"].get(okey, 0) + 1
            in_known = list(ctx.known_hits)
            for fid in in_known:
                res["known"][fid] = res["known"].get(fid, 0) + 1
            # candidate violations on this path
            cands = list(ctx.failed)
            if kind == "exc":
                cands.append(("uncaught:" + _exc_name(out[1]), model if model is not None else eng.model_for_pc(pc)))
            if model is None:
                model = eng.model_for_pc(pc)
            # ---- per-path witness validation against the uninstrumented code
            if model is not None and not opts.get("no_validate"):
                try:
                    inputs = model_inputs(ctx.decl, model)
                    nat = run_native(fn, params, inputs, active)
                    sym_checks = [(l, (v if isinstance(v, bool) else bool(rt.concretize(v, model)))) for l, v in ctx.checks]
                    sym_obs = [(k, concretize_deep(v, model)) for k, v in ctx.obs]
                    mism = None
                    if nat["outcome"] != okey:
                        mism = f"outcome sym={okey} native={nat['outcome']} ({nat['detail']})"
                    elif sym_checks != nat["checks"]:
                        mism = f"checks sym={sym_checks[:6]} native={nat['checks'][:6]}"
                    elif json.dumps(sym_obs, sort_keys=True, default=str) != json.dumps(nat["obs"], sort_keys=True, default=str):
                        mism = f"observations sym={json.dumps(sym_obs, default=str)[:300]} native={json.dumps(nat['obs'], default=str)[:300]}"
                    if mism and not in_known and not ctx.failed and kind == "ok":
                        # The real code fails an obligation (or raises) on this witness although the symbolic run discharged
                        # everything: state carried between calls (caches, mutated shared objects) or behaviour outside the
                        # models.  A run on the real code that fails twice in a row is a violation, not a modelling question.
                        nat_bad = [l for l, ok in nat["checks"] if not ok]
                        if nat["outcome"].startswith("exc:"):
                            nat_bad.append("uncaught:" + nat["outcome"][4:])
                        if nat_bad:
                            nat2 = run_native(fn, params, inputs, active)
                            bad2 = [l for l, ok in nat2["checks"] if not ok]
                            if nat2["outcome"].startswith("exc:"):
                                bad2.append("uncaught:" + nat2["outcome"][4:])
                            if nat_bad[0] in bad2 and not nat2["known"]:
                                if len(res["violations"]) < 3:
                                    res["violations"].append(dict(label=nat_bad[0], inputs=enc_inputs(inputs), native=nat2["outcome"],
                                                                  detail=(nat2["detail"] or "") + " [fails on the real code only: history-dependent or outside the models]"))
                                mism = None
                    if mism:
                        if len(res["mismatches"]) < 5:
                            res["mismatches"].append(dict(inputs=enc_inputs(inputs), what=mism))
                        else:
                            res["mismatches"].append(dict(what="(more)"))
                    else:
                        res["validated"] += 1
                        if ctx.checks:
                            res["reached"] += 1
                        if len(res["samples"]) < 2:
                            res["samples"].append(dict(inputs=enc_inputs(inputs), pc_size=len(pc), outcome=okey,
                                                       checks=[l for l, _ in ctx.checks][:8]))
                except Unsupported as e:
                    res["inconclusive"].append("witness: " + str(e)[:120])
            for label, m in cands:
                if in_known:
                    continue
                if m is None:
                    res["inconclusive"].append(f"no model for failed obligation {label}")
                    continue
                inputs = model_inputs(ctx.decl, m)
                nat = run_native(fn, params, inputs, active)
                failed_native = [l for l, ok in nat["checks"] if not ok]
                if nat["outcome"].startswith("exc:"):
                    failed_native.append("uncaught:" + nat["outcome"][4:])
                if label in failed_native:
                    key = label
                    if key not in seen_viol or len(res["violations"]) < 3:
                        seen_viol.add(key)
                        res["violations"].append(dict(label=label, inputs=enc_inputs(inputs), native=nat["outcome"],
                                                      detail=nat["detail"]))
                elif _fresh_replay(inst, label, inputs):
                    # state left behind by the symbolic run itself (module-level caches ...) masked the failure in this process:
                    # the counterexample reproduces on the real code in a fresh interpreter
                    if label not in seen_viol or len(res["violations"]) < 3:
                        seen_viol.add(label)
                        res["violations"].append(dict(label=label, inputs=enc_inputs(inputs), native="fresh process",
                                                      detail="reproduced on the uninstrumented code in a fresh interpreter (the outcome depends on state carried between calls)"))
                else:
                    res["mismatches"].append(dict(inputs=enc_inputs(inputs),
                                                  what=f"counterexample for {label} did not reproduce natively "
                                                       f"(native outcome {nat['outcome']}, failed {failed_native})"))
            if len(res["violations"]) >= opts.get("max_violations", 6):
                res["exhaustive"] = False
                res["inconclusive"].append("stopped after violations")
                break
    except BudgetExceeded as e:
        res["exhaustive"] = False
        res["inconclusive"].append("budget: " + str(e))
    st = eng.stats
    res.update(paths=st["paths"], forks=st["forks"], queries=dict(sat=st["sat"], unsat=st["unsat"], unknown=st["unknown"]),
               solver_s=round(st["solver_s"], 3), wall_s=round(time.time() - t0, 3), model_hits=st["model_hits"])
    res["functions"] = dict(INSTRUMENTED_LOG)
    return res


# ------------------------------------------------------------------ property runner
_INSTANCES = []
_DEADLINE = [None]      # overall wall budget of one check run: instances not started by then are skipped and reported


def _worker(i):
    signal.signal(signal.SIGINT, signal.SIG_IGN)
    import warnings
    warnings.simplefilter("ignore")
    inst = _INSTANCES[i]
    if _DEADLINE[0] is not None and time.time() > _DEADLINE[0]:
        return i, dict(name=inst["name"], paths=0, forks=0, obligations=0, discharged=0, validated=0, reached=0, violations=[], known={},
                       inconclusive=["budget: overall wall budget of the run reached before this instance started"], mismatches=[], samples=[],
                       unknown=0, completions=0, wall_s=0.0, exhaustive=False, outcomes={}, queries=dict(sat=0, unsat=0, unknown=0),
                       solver_s=0.0, model_hits=0, functions={})
    if _DEADLINE[0] is not None:
        # an instance never runs past the overall budget of the run (plus a short grace period to finish its current path)
        remaining = max(_DEADLINE[0] - time.time(), 20.0)
        opts = dict(inst.get("opts", {}))
        opts["wall_s"] = min(opts.get("wall_s", 120), remaining)
        inst = dict(inst, opts=opts)
    try:
        sys.setrecursionlimit(20000)
        r = run_instance(inst)
    except BaseException as e:
        r = dict(name=inst["name"], crashed="".join(traceback.format_exception(type(e), e, e.__traceback__))[-1500:])
    return i, r


def run_property(pid, instances, tier, seed, meta):
    """instances: list of dict(name, fn, params, opts).  Writes evidence, prints verdict lines, returns exit code."""
    global _INSTANCES
    t0 = time.time()
    outdir = os.environ.get("VERIF_OUT") or VERIF          # VERIF_OUT: trials of seeded changes only
    os.makedirs(os.path.join(outdir, "evidence"), exist_ok=True)
    os.makedirs(os.path.join(outdir, "replays"), exist_ok=True)
    for inst in instances:
        inst["pid"] = pid
    _INSTANCES = instances
    active = active_findings(pid)
    # 1. listed known findings: replay their witnesses natively
    known_lines = []
    stale = []
    by_name = {}
    for inst in instances:
        by_name.setdefault(inst["harness"], inst)
    for fid, e in active.items():
        w = e.get("witness")
        hn = e.get("harness")
        reproduced = False
        if w is not None and hn in meta.get("harness_fns", {}):
            fn = meta["harness_fns"][hn]
            nat = run_native(fn, e.get("params", {}), dec_inputs(w), {})   # region NOT excluded: must fail
            failed = [l for l, ok in nat["checks"] if not ok]
            if nat["outcome"].startswith("exc:"):
                failed.append("uncaught:" + nat["outcome"][4:])
            reproduced = e.get("label") in failed if e.get("label") else bool(failed)
        if reproduced:
            known_lines.append(f"KNOWN-FINDING: property={pid} {fid}: {e.get('what', '')}")
        else:
            stale.append(fid)
    results = [None] * len(instances)
    budget = float(os.environ.get("VERIF_RUN_WALL") or meta.get("run_wall_s", {}).get(tier) or (780 if tier == "quick" else 1800))
    _DEADLINE[0] = t0 + budget
    nproc = min(int(os.environ.get("VERIF_JOBS", "16")), max(1, len(instances)))
    if nproc > 1:
        ctxm = multiprocessing.get_context("fork")
        with ctxm.Pool(nproc, maxtasksperchild=8) as pool:
            for i, r in pool.imap_unordered(_worker, range(len(instances))):
                results[i] = r
    else:
        for i in range(len(instances)):
            results[i] = _worker(i)[1]
    # 2. aggregate
    agg = dict(paths=0, forks=0, obligations=0, discharged=0, validated=0, sat=0, unsat=0, unknown=0, solver_s=0.0)
    violations, mism, inconc, crashed, samples, known_counts, functions = [], [], [], [], [], {}, {}
    vacuous = []
    exhaustive = True
    for inst, r in zip(instances, results):
        if os.environ.get("VERIF_VERBOSE") and "crashed" not in r:
            print(f"  - {r['name']}: paths={r['paths']} obl={r['obligations']}/{r['discharged']} q={r['queries']} "
                  f"solver_s={r['solver_s']} wall={r['wall_s']} exh={r['exhaustive']} inconc={r['inconclusive'][:2]} out={r['outcomes']}")
        if "crashed" in r:
            crashed.append((r["name"], r["crashed"]))
            continue
        for k in ("paths", "forks", "obligations", "discharged", "validated"):
            agg[k] += r[k]
        for k in ("sat", "unsat", "unknown"):
            agg[k] += r["queries"][k]
        agg["solver_s"] += r["solver_s"]
        for v in r["violations"]:
            violations.append((inst, v))
        for m in r["mismatches"]:
            mism.append((r["name"], m))
        for x in r["inconclusive"]:
            inconc.append(dict(harness=r["name"], reason=x))
        if not r["exhaustive"]:
            exhaustive = False
        for fid, n in r["known"].items():
            known_counts[fid] = known_counts.get(fid, 0) + n
        functions.update(r["functions"])
        if r["reached"] == 0 and not inst.get("opts", {}).get("allow_vacuous") and not r["violations"] and not r["inconclusive"]:
            vacuous.append(r["name"])
        for s in r["samples"][:1]:
            if len(samples) < 12:
                samples.append(dict(harness=r["name"], **s))
    # 3. verdict
    code = 0
    out_lines = list(known_lines)
    replay_paths = []
    seen = set()
    for inst, v in violations:
        key = (inst["name"], v["label"])
        if key in seen:
            continue
        seen.add(key)
        if len(seen) > 40:
            continue
        rp = dict(property=pid, harness=inst["harness"], name=inst["name"], params=inst["params"], label=v["label"],
                  inputs=v["inputs"], native_outcome=v["native"], detail=v["detail"])
        h = hashlib.sha1(json.dumps(rp, sort_keys=True, default=str).encode()).hexdigest()[:10]
        path = os.path.join(outdir, "replays", f"{pid}-{h}.json")
        with open(path, "w") as f:
            json.dump(rp, f, indent=1, default=str)
        replay_paths.append(path)
        out_lines.append(f"VIOLATION property={pid} replay={path}")
        out_lines.append(f"  harness={inst['name']} obligation={v['label']} inputs={json.dumps(v['inputs'], default=str)[:300]}")
        code = 1
    harness_errors = []
    if crashed:
        harness_errors += [f"instance {n} crashed: {tb.strip().splitlines()[-1]}" for n, tb in crashed]
    if mism:
        harness_errors += [f"model/native mismatch in {n}: {m['what'][:1500]} inputs={json.dumps(m.get('inputs'), default=str)[:300]}" for n, m in mism[:10]]
    if vacuous:
        harness_errors += [f"vacuous instance (no obligation reached on a validated path): {n}" for n in vacuous[:10]]
    if harness_errors and code == 0:
        code = 3
    wall = time.time() - t0
    non_trivial = sum(1 for r in results if "crashed" not in r and r["paths"] > 0)
    ev = dict(
        property_id=pid, tier=tier, seed=seed, level="model_checking",
        coverage=dict(
            states=max(agg["paths"], 1) if agg["paths"] else 0, transitions=max(agg["forks"], 1) if agg["paths"] else 0,
            traces_validated_against_impl=agg["validated"],
            samples=samples or [dict(note="no path completed")],
            obligations=agg["obligations"], discharged=agg["discharged"],
            queries=dict(sat=agg["sat"], unsat=agg["unsat"], unknown=agg["unknown"]), solver_s=round(agg["solver_s"], 2),
            functions_encoded=[dict(qualname=k, sha1=v) for k, v in sorted(functions.items()) if not k.startswith("harness")],
            harness_instances=len(instances), instances_with_paths=non_trivial, run_wall_budget_s=budget,
            instances_skipped_by_run_budget=len([r for r in results if r and not r.get("crashed") and r.get("inconclusive") and str(r["inconclusive"][0]).startswith("budget: overall")]),
            bounds=meta.get("bounds", {}), iterated=meta.get("iterated", {}), models_used=meta.get("models", []),
            exhaustive=bool(exhaustive and not inconc), observations=meta.get("observations", []),
            known_findings_reproduced=[l for l in known_lines], known_region_paths=known_counts,
            known_findings_not_reproduced=stale,
            inconclusive=inconc[:40], inconclusive_count=len(inconc), harness_errors=harness_errors[:20],
            explanation="bounded symbolic execution of the repository's functions (source-instrumented, z3); states = "
                        "paths explored, transitions = solver-decided forks, traces_validated_against_impl = path "
                        "witnesses re-run on the uninstrumented code with identical observations",
        ),
        assumptions=meta.get("assumptions", []),
        wall_s=round(wall, 2), violations=len(seen),
    )
    with open(os.path.join(outdir, "evidence", f"{pid}.json"), "w") as f:
        json.dump(ev, f, indent=1, default=str)
    for l in out_lines:
        print(l)
    for l in harness_errors[:20]:
        print("HARNESS-ERROR:", l)
    print(f"[{pid}] tier={tier} instances={len(instances)} paths={agg['paths']} forks={agg['forks']} "
          f"obligations={agg['obligations']} discharged={agg['discharged']} validated={agg['validated']} "
          f"queries(sat/unsat/unknown)={agg['sat']}/{agg['unsat']}/{agg['unknown']} solver_s={agg['solver_s']:.1f} "
          f"inconclusive={len(inconc)} known_region_paths={sum(known_counts.values())} wall={wall:.1f}s exit={code}")
    if crashed:
        for n, tb in crashed[:3]:
            print("---- crash in", n)
            print(tb)
    return code


_FRESH_BUDGET = [6]


def _fresh_replay(inst, label, inputs):
    """replay a candidate counterexample on the real code in a fresh interpreter; True iff the obligation fails there"""
    import subprocess, tempfile
    if _FRESH_BUDGET[0] <= 0:
        return False
    _FRESH_BUDGET[0] -= 1
    rp = dict(property=inst["pid"], harness=inst["harness"], name=inst["name"], params=inst["params"], label=label, inputs=enc_inputs(inputs))
    fd, path = tempfile.mkstemp(prefix="sx-replay-", suffix=".json")
    try:
        with os.fdopen(fd, "w") as f:
            json.dump(rp, f, default=str)
        r = subprocess.run([sys.executable, "-m", "harness.main", "replay", path], cwd=VERIF, capture_output=True, timeout=300)
        return r.returncode == 1
    except Exception:
        return False
    finally:
        try:
            os.unlink(path)
        except OSError:
            pass


def replay_file(path, harness_fns):
    with open(path) as f:
        rp = json.load(f)
    fn = harness_fns[rp["harness"]]
    nat = run_native(fn, rp.get("params", {}), dec_inputs(rp["inputs"]), {})
    failed = [l for l, ok in nat["checks"] if not ok]
    if nat["outcome"].startswith("exc:"):
        failed.append("uncaught:" + nat["outcome"][4:])
    print(json.dumps(dict(harness=rp["harness"], label=rp.get("label"), inputs=rp["inputs"], outcome=nat["outcome"],
                          detail=nat["detail"], failed_obligations=failed), indent=1, default=str))
    return 1 if rp.get("label") in failed else 0
