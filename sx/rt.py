"""sx runtime: the hooks that instrumented code calls, and the model registries."""
import operator, types, functools, inspect, copy, string, builtins, sys, logging, warnings
import xml.etree.ElementTree as ET
import z3
from . import core
from .core import (Sym, SymInt, SymBool, SymChar, SymStr, SymEnum, OpaqueStr, SymBytes,
                   Unsupported, PathAbort, is_sym, pytype)


def E():
    return core.ENGINE


# ---------------------------------------------------------------- registries
MODELS = {}            # callable -> model(*args, **kw); used when an argument is symbolic
ALWAYS_MODEL = set()   # callables modelled even with concrete arguments
OVERRIDES = {}         # id(callable) -> replacement (environment stubs), always taken
ATTR_OVERRIDES = {}    # (id(obj), name) -> value
SYM_METHODS = {}       # (pytype, name) -> model(self, *args)   receiver symbolic
CONC_METHODS = {}      # (type, name) -> model(self, *args)     receiver concrete, some arg symbolic
SYM_ATTR_HOOKS = []    # f(obj, name) -> value | NotImplemented   (for Sym subclasses)
BINOP_HOOKS = []       # f(op, a, b) -> value | NotImplemented
COMPARE_HOOKS = []     # f(op, a, b) -> value | NotImplemented
CALL_HOOKS = []        # f(func, args, kw) -> (True, value) | None
GETATTR_HOOKS = []     # f(obj, name) -> value | NotImplemented  (concrete receivers)
CONCRETIZERS = []      # f(value, model) -> value | NotImplemented
NATIVE_TYPES = set()   # classes whose methods are always called natively (stubs, ctx)
NATIVE_FUNCS = set()   # plain functions that accept symbolic arguments natively (model helpers)
INSTRUMENT_PREFIXES = ["ofxtools", "harness"]
INSTRUMENT_MODULES = {"xml.sax.saxutils"}
WARNINGS = []          # recorded warnings.warn calls on the current path: (category, msg)
LOGGED = []


class BoundModel:
    __slots__ = ("fn", "obj")

    def __init__(self, fn, obj):
        self.fn, self.obj = fn, obj

    def __call__(self, *a, **k):
        return self.fn(self.obj, *a, **k)


def native(cls):
    """Class decorator: instances' methods are called natively by instrumented code."""
    NATIVE_TYPES.add(cls)
    return cls


# ---------------------------------------------------------------- term helpers
def iterm(v):
    if isinstance(v, SymInt):
        return v.t
    if isinstance(v, bool):
        return z3.IntVal(int(v))
    if isinstance(v, int):
        return z3.IntVal(v)
    if isinstance(v, SymBool):
        return z3.If(v.t, 1, 0)
    if isinstance(v, float) and v == int(v):
        return z3.IntVal(int(v))
    raise Unsupported(f"iterm {type(v).__name__}")


def bterm(v):
    if isinstance(v, SymBool):
        return v.t
    if isinstance(v, bool):
        return z3.BoolVal(v)
    raise Unsupported(f"bterm {type(v).__name__}")


def cterm(c):
    if isinstance(c, SymChar):
        return c.t
    if isinstance(c, str) and len(c) == 1:
        return z3.IntVal(ord(c))
    raise Unsupported(f"cterm {c!r}")


def chars(s):
    if isinstance(s, SymStr):
        return list(s.items)
    if isinstance(s, str):
        return list(s)
    if isinstance(s, SymEnum):
        return list(concretize_enum(s))
    if isinstance(s, SymChar):
        return [s]
    raise Unsupported(f"chars of {type(s).__name__}")


def mkstr(items):
    items = list(items)
    for c in items:
        if not isinstance(c, str):
            return SymStr(items)
    return "".join(items)


def concretize_enum(e):
    """Fork over the options of a SymEnum; returns the concrete option."""
    eng = E()
    seen = {}
    for k, opt in enumerate(e.options):
        seen.setdefault(_hkey(opt), []).append(k)
    groups = list(seen.values())
    for ks in groups[:-1]:
        if eng.branch(z3.Or(*[e.idx == k for k in ks])):
            return e.options[ks[0]]
    return e.options[groups[-1][0]]


def _hkey(o):
    try:
        hash(o)
        return (type(o), o)
    except TypeError:
        return id(o)


def dom_ranges(c):
    return c.dom if isinstance(c, SymChar) else None


def in_ranges_term(t, ranges):
    alts = []
    for lo, hi in ranges:
        alts.append(t == lo if lo == hi else z3.And(t >= lo, t <= hi))
    return z3.Or(*alts) if alts else z3.BoolVal(False)


def char_in(c, ranges):
    """Is character c in the union of (lo,hi) ranges?  python bool when decided by the domain, else z3 Bool."""
    if isinstance(c, str):
        o = ord(c)
        return any(lo <= o <= hi for lo, hi in ranges)
    if c.dom is not None:
        inside = all(any(lo <= dlo and dhi <= hi for lo, hi in ranges) for dlo, dhi in c.dom)
        if inside:
            return True
        disjoint = all(all(dhi < lo or hi < dlo for lo, hi in ranges) for dlo, dhi in c.dom)
        if disjoint:
            return False
    return in_ranges_term(c.t, ranges)


def _dom_and(dom, ranges):
    out = []
    for dlo, dhi in dom:
        for lo, hi in ranges:
            a, b = max(dlo, lo), min(dhi, hi)
            if a <= b:
                out.append((a, b))
    return sorted(out)


def _dom_minus(dom, ranges):
    out = list(dom)
    for lo, hi in ranges:
        nxt = []
        for dlo, dhi in out:
            if hi < dlo or dhi < lo:
                nxt.append((dlo, dhi))
                continue
            if dlo < lo:
                nxt.append((dlo, lo - 1))
            if hi < dhi:
                nxt.append((hi + 1, dhi))
        out = nxt
    return sorted(out)


def char_test(c, ranges):
    """Decide (forking if needed) whether character c lies in ranges; narrows the character's domain for the
    rest of the path so that later tests of the same character are answered without the solver."""
    r = char_in(c, ranges)
    if isinstance(r, bool):
        return r
    eng = E()
    side = eng.branch(r)
    if c.dom is not None:
        c.dom = _dom_and(c.dom, ranges) if side else _dom_minus(c.dom, ranges)
        if c.dom and z3.is_const(c.t):
            eng.set_bounds(c.t, c.dom[0][0], c.dom[-1][1])
            eng._bcache.clear()
    return side


def decide(cond):
    """truth of a python bool or z3 Bool through the engine"""
    if isinstance(cond, bool):
        return cond
    return E().branch(cond)


def deep_sym(a, depth=0):
    if isinstance(a, Sym):
        return True
    if depth < 3:
        if isinstance(a, (list, tuple, set, frozenset)):
            return any(deep_sym(x, depth + 1) for x in a)
        if isinstance(a, dict):
            return any(deep_sym(x, depth + 1) for x in a.values()) or any(isinstance(k, Sym) for k in a)
    return False


# ---------------------------------------------------------------- truth / bool ops
def truth(v):
    if isinstance(v, Sym):
        if isinstance(v, SymBool):
            return E().branch(v.t)
        if isinstance(v, SymInt):
            return E().branch(v.t != 0)
        if isinstance(v, SymStr):
            return len(v.items) > 0
        if isinstance(v, SymBytes):
            return len(v.items) > 0
        if isinstance(v, SymChar):
            return True
        if isinstance(v, SymEnum):
            falsy = [k for k, o in enumerate(v.options) if not o]
            if not falsy:
                return True
            if len(falsy) == len(v.options):
                return False
            return not E().branch(z3.Or(*[v.idx == k for k in falsy]))
        h = getattr(v, "sx_truth", None)
        if h is not None:
            return h()
        raise Unsupported(f"truth of {type(v).__name__}")
    return bool(v)


def and_(*thunks):
    v = True
    for th in thunks:
        v = th()
        if not truth(v):
            return v
    return v


def or_(*thunks):
    v = False
    for th in thunks:
        v = th()
        if truth(v):
            return v
    return v


def not_(v):
    if isinstance(v, SymBool):
        return SymBool(z3.Not(v.t))
    return not truth(v)


# ---------------------------------------------------------------- arithmetic
_PYOPS = {'+': operator.add, '-': operator.sub, '*': operator.mul, '//': operator.floordiv,
          '%': operator.mod, '**': operator.pow, '/': operator.truediv, '|': operator.or_,
          '&': operator.and_, '^': operator.xor, '<<': operator.lshift, '>>': operator.rshift,
          '@': operator.matmul}


def binop(op, a, b):
    if not (isinstance(a, Sym) or isinstance(b, Sym)):
        if op == '%' and isinstance(a, str) and isinstance(b, (tuple, dict)) and deep_sym(b):
            return OpaqueStr()          # old-style formatting with symbolic arguments: a message, as for f-strings
        return _PYOPS[op](a, b)
    for h in BINOP_HOOKS:
        r = h(op, a, b)
        if r is not NotImplemented:
            return r
    ta, tb = pytype(a), pytype(b)
    if ta is str and tb is str and op == '+':
        if isinstance(a, OpaqueStr) or isinstance(b, OpaqueStr):
            return OpaqueStr()
        return mkstr(chars(a) + chars(b))
    if ta is str and op == '%':
        return OpaqueStr()
    if ta is str and op == '*' and isinstance(b, int):
        return mkstr(chars(a) * b)
    if tb is str and op == '*' and isinstance(a, int):
        return mkstr(chars(b) * a)
    if (ta is bytes or isinstance(a, (bytes, bytearray))) and (tb is bytes or isinstance(b, (bytes, bytearray))) and op == '+':
        return SymBytes(bitems(a) + bitems(b))
    if isinstance(a, (list, tuple)) and isinstance(b, (list, tuple)) and op == '+':
        return a + b
    if ta in (int, bool) and tb in (int, bool):
        x, y = iterm(a), iterm(b)
        if op == '+':
            return SymInt(x + y)
        if op == '-':
            return SymInt(x - y)
        if op == '*':
            if isinstance(a, Sym) and isinstance(b, Sym):
                raise Unsupported("symbolic * symbolic")
            return SymInt(x * y)
        if op == '//' and isinstance(b, int) and b > 0:
            return SymInt(small_div(x, b))
        if op == '%' and isinstance(b, int) and b > 0:
            return SymInt(small_mod(x, b))
        if op == '**' and isinstance(a, int) and isinstance(b, SymInt):
            raise Unsupported("const ** symbolic")
    raise Unsupported(f"binop {op} {type(a).__name__} {type(b).__name__}")


SMALL_DIV_MAX = -1


def small_div(x, b):
    """x div b (b > 0 constant): an If-chain over the possible quotients when interval bounds show there are few."""
    bd = E().bounds(x)
    if bd is not None:
        qlo, qhi = bd[0] // b, bd[1] // b
        if qhi - qlo <= SMALL_DIV_MAX:
            r = z3.IntVal(qhi)
            for q in range(qhi - 1, qlo - 1, -1):
                r = z3.If(x < (q + 1) * b, z3.IntVal(q), r)
            return r
    return x / b


def small_mod(x, b):
    bd = E().bounds(x)
    if bd is not None:
        qlo, qhi = bd[0] // b, bd[1] // b
        if qhi - qlo <= SMALL_DIV_MAX:
            return x - b * small_div(x, b)
    return x % b


def unary(op, a):
    if not isinstance(a, Sym):
        return {'-': operator.neg, '+': operator.pos, '~': operator.invert}[op](a)
    for h in BINOP_HOOKS:
        r = h('u' + op, a, None)
        if r is not NotImplemented:
            return r
    if op == '-':
        return SymInt(-iterm(a))
    if op == '+':
        return SymInt(iterm(a))
    raise Unsupported(f"unary {op} {type(a).__name__}")


def bitems(b):
    if isinstance(b, SymBytes):
        return list(b.items)
    return list(bytes(b))


# ---------------------------------------------------------------- comparison
_CMP = {'==': operator.eq, '!=': operator.ne, '<': operator.lt, '<=': operator.le, '>': operator.gt,
        '>=': operator.ge, 'in': lambda a, b: a in b, 'notin': lambda a, b: a not in b,
        'is': operator.is_, 'isnot': operator.is_not}


def str_eq(a, b):
    """a == b for str-typed values; python bool or SymBool (no forking except enum vs symbolic str)"""
    if isinstance(a, OpaqueStr) or isinstance(b, OpaqueStr):
        raise Unsupported("compare opaque string")
    if isinstance(a, SymEnum) and isinstance(b, SymEnum):
        if a.idx is b.idx and a.options == b.options:
            return True
        return str_eq(concretize_enum(a), b)
    if isinstance(b, SymEnum):
        a, b = b, a
    if isinstance(a, SymEnum):
        if isinstance(b, str):
            ks = [k for k, o in enumerate(a.options) if o == b]
            if not ks:
                return False
            if len(ks) == len(a.options):
                return True
            return SymBool(z3.Or(*[a.idx == k for k in ks]))
        alts = []
        for k, o in enumerate(a.options):
            r = str_eq(o, b) if isinstance(o, str) else False
            if r is True:
                alts.append(a.idx == k)
            elif r is not False:
                alts.append(z3.And(a.idx == k, r.t))
        return SymBool(z3.Or(*alts)) if alts else False
    ca, cb = chars(a), chars(b)
    if len(ca) != len(cb):
        return False
    conj = []
    for p, q in zip(ca, cb):
        if isinstance(p, str) and isinstance(q, str):
            if p != q:
                return False
        elif p is q:
            continue
        else:
            if isinstance(p, str) and char_in(q, [(ord(p), ord(p))]) is False:
                return False
            if isinstance(q, str) and char_in(p, [(ord(q), ord(q))]) is False:
                return False
            conj.append(cterm(p) == cterm(q))
    return SymBool(z3.And(*conj)) if conj else True


def str_lt(a, b, strict=True):
    """lexicographic order on strings; forks on character comparisons"""
    ca, cb = chars(a), chars(b)
    for p, q in zip(ca, cb):
        if isinstance(p, str) and isinstance(q, str):
            if p != q:
                return p < q
            continue
        if decide(cterm(p) < cterm(q)):
            return True
        if decide(cterm(p) > cterm(q)):
            return False
    if len(ca) == len(cb):
        return not strict
    return len(ca) < len(cb)


def compare(op, a, b):
    if op in ('is', 'isnot'):
        # a symbolic boolean stands for one of the two singletons True / False
        sb, other = (a, b) if isinstance(a, SymBool) else ((b, a) if isinstance(b, SymBool) else (None, None))
        if sb is not None and isinstance(other, bool):
            r = sb if other else not_(sb)
            return r if op == 'is' else not_(r)
        return (a is b) if op == 'is' else (a is not b)
    if not (isinstance(a, Sym) or isinstance(b, Sym)):
        if op in ('in', 'notin') and deep_sym(b):
            pass
        elif op in ('==', '!=') and (deep_sym(a) or deep_sym(b)):
            r = seq_eq(a, b)
            return r if op == '==' else not_(r)
        else:
            return _CMP[op](a, b)
    for h in COMPARE_HOOKS:
        r = h(op, a, b)
        if r is not NotImplemented:
            return r
    if op in ('in', 'notin'):
        r = contains(b, a)
        return r if op == 'in' else not_(r)
    ta, tb = pytype(a), pytype(b)
    if ta is str and tb is str:
        if op in ('==', '!='):
            r = str_eq(a, b)
            return r if op == '==' else not_(r)
        if op == '<':
            return str_lt(a, b, True)
        if op == '<=':
            return str_lt(a, b, False)
        if op == '>':
            return str_lt(b, a, True)
        if op == '>=':
            return str_lt(b, a, False)
    if ta is bytes and tb is bytes and op in ('==', '!='):
        ia, ib = bitems(a), bitems(b)
        if len(ia) != len(ib):
            r = False
        else:
            conj = [(_bt(x) == _bt(y)) for x, y in zip(ia, ib) if not (isinstance(x, int) and isinstance(y, int) and x == y)]
            if any(isinstance(x, int) and isinstance(y, int) and x != y for x, y in zip(ia, ib)):
                r = False
            else:
                r = SymBool(z3.And(*conj)) if conj else True
        return r if op == '==' else not_(r)
    num = (int, bool, float)
    if ta in num and tb in num:
        x, y = iterm(a), iterm(b)
        return SymBool({'==': x == y, '!=': x != y, '<': x < y, '<=': x <= y, '>': x > y, '>=': x >= y}[op])
    if op == '==':
        if a is None or b is None or ta is not tb:
            return False
    if op == '!=':
        if a is None or b is None or ta is not tb:
            return True
    raise Unsupported(f"compare {op} {type(a).__name__} {type(b).__name__}")


def _bt(x):
    return z3.IntVal(x) if isinstance(x, int) else x


def seq_eq(a, b):
    """== on containers that carry symbolic members"""
    if isinstance(a, Sym) or isinstance(b, Sym):
        return compare('==', a, b)
    if isinstance(a, (list, tuple)) and isinstance(b, (list, tuple)):
        if type(a) is not type(b) and not (isinstance(a, list) and isinstance(b, list)):
            return False
        if len(a) != len(b):
            return False
        conj = []
        for x, y in zip(a, b):
            r = seq_eq(x, y)
            if r is False:
                return False
            if r is not True:
                conj.append(r.t)
        return SymBool(z3.And(*conj)) if conj else True
    if isinstance(a, dict) and isinstance(b, dict):
        if set(map(_hkey, a)) != set(map(_hkey, b)):
            return False
        conj = []
        for k in a:
            r = seq_eq(a[k], b[k])
            if r is False:
                return False
            if r is not True:
                conj.append(r.t)
        return SymBool(z3.And(*conj)) if conj else True
    if deep_sym(a) or deep_sym(b):
        raise Unsupported(f"== on {type(a).__name__}/{type(b).__name__} with symbolic content")
    return a == b


def contains(container, item):
    if isinstance(container, OpaqueStr):
        raise Unsupported("in opaque")
    if isinstance(container, (SymStr, SymEnum)) or (isinstance(container, str) and isinstance(item, Sym)):
        if isinstance(container, SymEnum) and isinstance(item, str):
            ks = [k for k, o in enumerate(container.options) if item in o]
            if not ks:
                return False
            if len(ks) == len(container.options):
                return True
            return SymBool(z3.Or(*[container.idx == k for k in ks]))
        hay = chars(container)
        nd = chars(item)
        if len(nd) == 0:
            return True
        alts = []
        for p in range(0, len(hay) - len(nd) + 1):
            r = str_eq(mkstr(hay[p:p + len(nd)]), mkstr(nd))
            if r is True:
                return True
            if r is not False:
                alts.append(r.t)
        return SymBool(z3.Or(*alts)) if alts else False
    if isinstance(container, Sym):
        h = getattr(container, "sx_contains", None)
        if h is not None:
            return h(item)
        raise Unsupported(f"in {type(container).__name__}")
    if isinstance(container, range) and isinstance(item, (SymInt, SymBool)):
        t = iterm(item)
        if container.step == 1:
            return SymBool(z3.And(t >= container.start, t < container.stop))
        raise Unsupported("in range with step")
    alts = []
    for k in container:
        r = compare('==', k, item)
        if r is True:
            return True
        if r is False:
            continue
        alts.append(r.t)
    return SymBool(z3.Or(*alts)) if alts else False


# ---------------------------------------------------------------- subscripts
def subscript(o, i):
    if isinstance(o, Sym):
        if isinstance(o, SymStr):
            if isinstance(i, (int, slice)):
                r = o.items[i]
                return mkstr(r if isinstance(i, slice) else [r])
        if isinstance(o, SymBytes):
            if isinstance(i, slice):
                return SymBytes(o.items[i])
            if isinstance(i, int):
                it = o.items[i]
                return it if isinstance(it, int) else SymInt(it)
        if isinstance(o, SymEnum):
            return subscript(concretize_enum(o), i)
        h = getattr(o, "sx_getitem", None)
        if h is not None:
            return h(i)
        raise Unsupported(f"subscript on {type(o).__name__}")
    if isinstance(i, Sym):
        if isinstance(i, SymEnum):
            return o[concretize_enum(i)]
        if isinstance(o, dict):
            for k, v in o.items():
                if truth(compare('==', k, i)):
                    return v
            raise KeyError(i)
        if isinstance(o, (list, tuple, str)) and isinstance(i, SymInt):
            n = len(o)
            for k in range(n):
                if E().branch(z3.Or(i.t == k, i.t == k - n)):
                    return o[k]
            raise IndexError("index out of range")
        raise Unsupported("symbolic index")
    if isinstance(o, dict) and deep_sym(list(o.keys())):
        for k, v in o.items():
            if truth(compare('==', k, i)):
                return v
        raise KeyError(i)
    return o[i]


def store_subscript(o, i, v):
    if isinstance(i, SymEnum):
        i = concretize_enum(i)
    elif isinstance(i, Sym) and isinstance(o, dict):
        for k in list(o.keys()):
            if truth(compare('==', k, i)):
                o[k] = v
                return
        o[i] = v
        return
    elif isinstance(o, dict) and not isinstance(i, Sym) and any(isinstance(k, Sym) for k in o):
        for k in list(o.keys()):
            if truth(compare('==', k, i)):
                o[k] = v
                return
    o[i] = v


# ---------------------------------------------------------------- int <-> text
RUNS = {}


_DIGIT_MEMO = {}
DIGIT_DIVMOD_MAX = 2


PATH_RESET_HOOKS = []


def _reset_runs():
    RUNS.clear()
    _DIGIT_MEMO.clear()
    for h in PATH_RESET_HOOKS:
        h()


def digits_of(a, n):
    """n fresh decimal digit characters whose value is the term a (requires 0 <= a < 10**n on this path).
    The digits are a definitional extension (d_k = a div 10^k mod 10): no feasibility query is needed.  The
    solver sees the linear equation sum d_k 10^k = a with 0 <= d_k <= 9 and, for runs of <= 2 digits, the
    div/mod definitions as well (DESIGN 2.1 encoding rule (i))."""
    eng = E()
    a = z3.simplify(a) if not isinstance(a, int) else z3.IntVal(a)
    mk = (a.get_id(), n)
    hit = _DIGIT_MEMO.get(mk)
    if hit is not None:
        return [SymChar(c.t, dom=[(48, 57)], run=c.run) for c in hit[1]]
    ds = []
    tot = 0
    for k in reversed(range(n)):
        d = eng.fresh("dg")
        ds.append(d)
        tot = tot + d * (10 ** k)
        if n <= DIGIT_DIVMOD_MAX:
            dterm = small_mod(small_div(a, 10 ** k), 10) if k else small_mod(a, 10)
        else:
            dterm = (a / (10 ** k)) % 10 if k else a % 10
        eng.define(d, dterm, assert_eq=(n <= DIGIT_DIVMOD_MAX))
        eng.set_bounds(d, 0, 9)
    eng.lemma(z3.And(*[z3.And(d >= 0, d <= 9) for d in ds]))
    eng.lemma(tot == a)
    rid = len(RUNS) + 1
    RUNS[rid] = a
    out = [SymChar(48 + d, dom=[(48, 57)], run=(rid, pos, n)) for pos, d in enumerate(ds)]
    _DIGIT_MEMO[mk] = (a, out)
    return [SymChar(c.t, dom=[(48, 57)], run=c.run) for c in out]


def run_value(items):
    """If items are exactly one complete digit run from digits_of, its source term."""
    if not items:
        return None
    first = items[0]
    if not (isinstance(first, SymChar) and first.run):
        return None
    rid, _, n = first.run
    if len(items) != n:
        return None
    for pos, c in enumerate(items):
        if not (isinstance(c, SymChar) and c.run == (rid, pos, n)):
            return None
    return RUNS.get(rid)


_WS = [(9, 13), (28, 32), (0x85, 0x85), (0xA0, 0xA0), (0x1680, 0x1680), (0x2000, 0x200A), (0x2028, 0x2029),
       (0x202F, 0x202F), (0x205F, 0x205F), (0x3000, 0x3000)]


def is_ws(c):
    if isinstance(c, str):
        return c.isspace()
    return char_test(c, _WS)


def digit_val(c, base=10):
    """value of one character as a digit in base, forking as needed; None if not a digit"""
    if isinstance(c, str):
        try:
            return int(c, base)
        except ValueError:
            return None
    t = c.t
    if char_test(c, [(48, 57)]):
        v = t - 48
        if base < 10 and not decide(v < base):
            return None
        return v
    if base > 10:
        if char_test(c, [(65, 64 + base - 10)]):
            return t - 55
        if char_test(c, [(97, 96 + base - 10)]):
            return t - 87
    if char_test(c, [(0, 127)]):
        return None
    raise Unsupported("int() of a non-ASCII symbolic character")


def m_int(x=0, base=10):
    if isinstance(x, SymInt):
        return x
    if isinstance(x, SymBool):
        return SymInt(iterm(x))
    if isinstance(x, SymEnum):
        x = concretize_enum(x)
    if isinstance(x, OpaqueStr):
        raise Unsupported("int(opaque)")
    if isinstance(x, (SymStr, SymChar)):
        items = chars(x)
        while items and is_ws(items[0]):
            items = items[1:]
        while items and is_ws(items[-1]):
            items = items[:-1]
        sign = 1
        if items:
            c0 = items[0]
            if isinstance(c0, str):
                if c0 in '+-':
                    sign = -1 if c0 == '-' else 1
                    items = items[1:]
            else:
                if char_test(c0, [(45, 45)]):
                    sign = -1
                    items = items[1:]
                elif char_test(c0, [(43, 43)]):
                    items = items[1:]
        if not items:
            raise ValueError("invalid literal for int()")
        if base == 10:
            rv = run_value(items)
            if rv is not None:
                return SymInt(rv if sign == 1 else -rv)
        total = None
        prev_us = True   # underscore not allowed at start
        for c in items:
            if (c == '_') if isinstance(c, str) else char_test(c, [(95, 95)]):
                if prev_us:
                    raise ValueError("invalid literal for int()")
                prev_us = True
                continue
            v = digit_val(c, base)
            if v is None:
                raise ValueError(f"invalid literal for int() with base {base}")
            prev_us = False
            total = v if total is None else total * base + v
        if prev_us:
            raise ValueError("invalid literal for int()")
        if isinstance(total, int):
            return sign * total
        return SymInt(z3.simplify(sign * total))
    for h in CONVERT_INT_HOOKS:
        r = h(x)
        if r is not NotImplemented:
            return r
    if isinstance(x, Sym):
        raise Unsupported(f"int({type(x).__name__})")
    return int(x, base) if isinstance(x, (str, bytes)) else int(x)


CONVERT_INT_HOOKS = []
STR_HOOKS = []


def int_to_chars(x, minwidth=1, maxdigits=19):
    t = x.t
    eng = E()
    neg = eng.branch(t < 0)
    a = -t if neg else t
    n = max(minwidth, 1)
    while not eng.branch(a < 10 ** n):
        n += 1
        if n > maxdigits:
            raise Unsupported("str(int) too long")
    return neg, digits_of(a, n)


def m_str(x='', *rest):
    if rest:
        if isinstance(x, SymBytes):
            return SYM_METHODS[(bytes, 'decode')](x, *rest)
        return str(x, *rest)
    if isinstance(x, Sym):
        if pytype(x) is str:
            return x
        if isinstance(x, SymInt):
            neg, ds = int_to_chars(x)
            return SymStr((['-'] if neg else []) + ds)
        if isinstance(x, SymBool):
            return "True" if truth(x) else "False"
        if isinstance(x, SymEnum):
            return str(concretize_enum(x))
        for h in STR_HOOKS:
            r = h(x)
            if r is not NotImplemented:
                return r
        raise Unsupported(f"str({type(x).__name__})")
    if deep_sym(x):
        return OpaqueStr()
    tx = type(x)
    if _is_ofx(tx) and tx not in NATIVE_TYPES:
        for b in tx.__mro__:
            if '__str__' in vars(b):
                f = vars(b)['__str__']
                if isinstance(f, types.FunctionType) and _is_ofx(b):
                    return call(f, x)
                break
    try:
        return str(x)
    except TypeError:
        return OpaqueStr()      # a native __str__/__repr__ met symbolic members: only message text is lost


def m_repr(x):
    if deep_sym(x) or isinstance(x, Sym):
        return OpaqueStr()
    return repr(x)


def m_len(x):
    if isinstance(x, (SymStr, SymBytes)):
        return len(x.items)
    if isinstance(x, SymEnum):
        return len(concretize_enum(x))
    if isinstance(x, SymChar):
        return 1
    if isinstance(x, Sym):
        h = getattr(x, "sx_len", None)
        if h is not None:
            return h()
        raise Unsupported(f"len({type(x).__name__})")
    return len(x)


def m_isinstance(v, t):
    if isinstance(v, Sym):
        ts = t if isinstance(t, tuple) else (t,)
        pt = pytype(v)
        return any(isinstance(x, type) and issubclass(pt, x) for x in ts)
    return isinstance(v, t)


def m_type(v, *rest):
    if rest:
        return type(v, *rest)
    return pytype(v)


def m_getattr(o, name, *default):
    if isinstance(name, SymEnum):
        name = concretize_enum(name)
    if isinstance(name, Sym):
        raise Unsupported("getattr with symbolic name")
    try:
        return getattr_(o, name)
    except AttributeError:
        if default:
            return default[0]
        raise


def m_setattr(o, name, v):
    if isinstance(name, SymEnum):
        name = concretize_enum(name)
    return setattr_(o, name, v)


def m_hasattr(o, name):
    if isinstance(name, SymEnum):
        name = concretize_enum(name)
    try:
        getattr_(o, name)
        return True
    except AttributeError:
        return False


def m_sum(xs, start=0):
    acc = start
    for x in sx_iter(xs):
        acc = binop('+', acc, x)
    return acc


def m_bool(x=False):
    if isinstance(x, SymBool):
        return x
    return truth(x)


def m_abs(x):
    if isinstance(x, SymInt):
        return SymInt(z3.If(x.t >= 0, x.t, -x.t))
    if isinstance(x, Sym):
        for h in BINOP_HOOKS:
            r = h('abs', x, None)
            if r is not NotImplemented:
                return r
        raise Unsupported("abs")
    return abs(x)


def m_divmod(a, b):
    if isinstance(a, Sym) or isinstance(b, Sym):
        return (binop('//', a, b), binop('%', a, b))
    return divmod(a, b)


def _m_extreme(op, args, kw):
    key = kw.pop("key", None)
    has_default = "default" in kw
    default = kw.pop("default", None)
    if kw:
        raise Unsupported("min/max keyword")
    xs = list(sx_iter(args[0])) if len(args) == 1 else list(args)
    if not xs:
        if has_default:
            return default
        raise ValueError("min()/max() arg is an empty sequence")
    ks = [call(key, x) for x in xs] if key is not None else xs
    best = 0
    for i in range(1, len(xs)):
        if truth(compare(op, ks[i], ks[best])):
            best = i
    return xs[best]


def m_min(*args, **kw):
    return _m_extreme('<', args, kw)


def m_max(*args, **kw):
    return _m_extreme('>', args, kw)


def m_ord(c):
    if isinstance(c, SymStr) and len(c.items) == 1:
        c = c.items[0]
    if isinstance(c, SymChar):
        return SymInt(c.t)
    if isinstance(c, SymEnum):
        return ord(concretize_enum(c))
    return ord(c)


def m_chr(i):
    if isinstance(i, SymInt):
        return SymStr([SymChar(i.t)])
    return chr(i)


def m_list(x=()):
    if isinstance(x, SymStr):
        return [mkstr([c]) for c in x.items]
    if isinstance(x, SymBytes):
        return [it if isinstance(it, int) else SymInt(it) for it in x.items]
    if isinstance(x, SymEnum):
        return list(concretize_enum(x))
    return list(sx_iter(x))


def m_tuple(x=()):
    return tuple(m_list(x))


def m_set(x=()):
    xs = m_list(x)
    if deep_sym(xs):
        out = []
        for v in xs:
            if not any(truth(compare('==', v, w)) for w in out):
                out.append(v)
        return SymSet(out)
    if xs and all(type(v).__hash__ is object.__hash__ for v in xs):
        return IdOrderedSet(xs)
    return set(xs)


def m_frozenset(x=()):
    """frozenset(...) of values that carry symbolic members: the same solver-decided de-duplication as set(...)"""
    xs = m_list(x)
    if deep_sym(xs) or (xs and all(type(v).__hash__ is object.__hash__ for v in xs)):
        return m_set(xs)
    return frozenset(xs)


class IdOrderedSet(set):
    """set of objects hashed by identity: python iterates such a set in address order, which differs from one
    re-execution of a path to the next; the engine replays decisions by position, so iteration here is made
    deterministic (insertion order - one of the orders the real set may produce)"""

    def __init__(self, xs=()):
        set.__init__(self)
        self._order = []
        for x in xs:
            self.add(x)

    def add(self, x):
        if not set.__contains__(self, x):
            self._order.append(x)
        set.add(self, x)

    def __iter__(self):
        return iter([x for x in self._order if set.__contains__(self, x)])


def mk_dict(pairs):
    """dict display / comprehension: keys that carry symbolic parts are compared through the solver (python would
    hash the proxies by identity and silently keep duplicates apart)"""
    pairs = list(pairs)
    if not any(isinstance(k, Sym) or deep_sym(k) for k, _ in pairs):
        return dict(pairs)
    keys, vals = [], []
    for k, v in pairs:
        for i, k0 in enumerate(keys):
            if truth(compare('==', k0, k)):
                vals[i] = v
                break
        else:
            keys.append(k)
            vals.append(v)
    return dict(zip(keys, vals))


def mk_set(items):
    items = list(items)
    if not any(isinstance(x, Sym) or deep_sym(x) for x in items):
        return set(items)
    return m_set(items)


class SymSet(list):
    """set whose members may be symbolic: a de-duplicated list (membership decided through the solver)"""
    def pop(self):
        return list.pop(self)


def m_sorted(xs, key=None, reverse=False):
    xs = m_list(xs)
    keys = [call(key, x) if key is not None else x for x in xs]
    if not deep_sym(keys):
        order = sorted(range(len(xs)), key=lambda i: keys[i], reverse=reverse)
        return [xs[i] for i in order]
    # insertion sort through symbolic comparisons (stable)
    out = []
    for i in range(len(xs)):
        j = len(out)
        while j > 0:
            kj = keys[out[j - 1]]
            lt = truth(compare('<', keys[i], kj)) if not reverse else truth(compare('>', keys[i], kj))
            if lt:
                j -= 1
            else:
                break
        out.insert(j, i)
    return [xs[i] for i in out]


def m_enumerate(xs, start=0):
    return enumerate(sx_iter(xs), start)


def m_zip(*xs):
    return zip(*[sx_iter(x) for x in xs])


def m_map(f, *xs):
    """map with symbolic operands: evaluated eagerly, through the instrumented call path"""
    return iter([call(f, *args) for args in zip(*[sx_iter(x) for x in xs])])


def m_filter(f, xs):
    return iter([x for x in sx_iter(xs) if truth(call(f, x) if f is not None else x)])


def m_reversed(x):
    if isinstance(x, SymStr):
        return iter([mkstr([c]) for c in reversed(x.items)])
    return reversed(x)


def m_any(xs):
    for x in sx_iter(xs):
        if truth(x):
            return True
    return False


def m_all(xs):
    for x in sx_iter(xs):
        if not truth(x):
            return False
    return True


def m_bytes(x=b"", enc=None, errors="strict"):
    if isinstance(x, (SymStr, SymEnum, SymChar)) or (isinstance(x, str) and enc):
        return SYM_METHODS[(str, 'encode')](x, enc or 'utf-8', errors)
    if isinstance(x, SymBytes):
        return x
    return bytes(x, enc) if enc else bytes(x)


def m_print(*a, **k):
    LOGGED.append(("print", a))


def m_dict(*a, **k):
    return dict(*a, **k)


def m_format(v, spec=''):
    return fstr((v, -1, spec))


MODELS.update({int: m_int, str: m_str, len: m_len, sum: m_sum, bool: m_bool, abs: m_abs, divmod: m_divmod,
               min: m_min, max: m_max, ord: m_ord, chr: m_chr, list: m_list, tuple: m_tuple, set: m_set, frozenset: m_frozenset,
               sorted: m_sorted, enumerate: m_enumerate, zip: m_zip, reversed: m_reversed, any: m_any, map: m_map, filter: m_filter,
               all: m_all, bytes: m_bytes, repr: m_repr, format: m_format,
               isinstance: m_isinstance, type: m_type, getattr: m_getattr, setattr: m_setattr,
               hasattr: m_hasattr, print: m_print})
ALWAYS_MODEL.update({isinstance, type, getattr, setattr, hasattr, print, str, set, frozenset, filter, map, sorted, any, all, min, max})


# ---------------------------------------------------------------- f-strings / format
def fmt_value(v, spec):
    """format(v, spec) for symbolic v -> list of chars, or None if opaque"""
    if isinstance(v, SymEnum):
        v = concretize_enum(v)
        return list(format(v, spec))
    if isinstance(v, SymInt):
        if spec in ('', 'd'):
            neg, ds = int_to_chars(v)
            return (['-'] if neg else []) + ds
        if len(spec) >= 2 and spec[0] == '0' and spec[-1] == 'd' and spec[1:-1].isdigit():
            width = int(spec[1:-1])
            eng = E()
            neg = eng.branch(v.t < 0)
            t = -v.t if neg else v.t
            n = max(width - 1 if neg else width, 1)     # sign-aware zero padding: '-' counts towards width
            while not eng.branch(t < 10 ** n):
                n += 1
                if n > 19:
                    raise Unsupported("format(int) too long")
            return (['-'] if neg else []) + digits_of(t, n)
        return None
    if pytype(v) is str and spec == '':
        if isinstance(v, OpaqueStr):
            return None
        return chars(v)
    return None


def fstr(*parts):
    out = []
    opaque = False
    for p in parts:
        if isinstance(p, tuple):
            v, conv, spec = p
            if isinstance(spec, Sym):
                raise Unsupported("symbolic format spec")
            if conv != -1 and (isinstance(v, Sym) or deep_sym(v)):
                if conv == 115 and pytype(v) is str and not isinstance(v, OpaqueStr):
                    pass
                else:
                    opaque = True
                    continue
            elif conv == 114:
                v = repr(v)
            elif conv == 115:
                v = str(v)
            elif conv == 97:
                v = ascii(v)
            if isinstance(v, Sym):
                r = fmt_value(v, spec)
                if r is None:
                    opaque = True
                else:
                    out += r
            elif deep_sym(v):
                opaque = True
            elif _is_ofx(type(v)) and spec == '' and not isinstance(v, (str, int, float)):
                r = m_str(v)
                if isinstance(r, OpaqueStr):
                    opaque = True
                else:
                    out += chars(r)
            else:
                try:
                    out += list(format(v, spec))
                except (Unsupported, TypeError):
                    opaque = True
        else:
            out += list(p)
    if opaque:
        return OpaqueStr()
    return mkstr(out)


def s_format(fmt, *a, **k):
    if isinstance(fmt, Sym):
        raise Unsupported("format on symbolic template")
    out = []
    ai = 0
    for lit, field, spec, conv in string.Formatter().parse(fmt):
        out += list(lit)
        if field is None:
            continue
        if conv:
            if deep_sym(a) or deep_sym(k):
                return OpaqueStr()
        if field == '':
            v = a[ai]
            ai += 1
        elif field.isdigit():
            v = a[int(field)]
        elif field.isidentifier():
            v = k[field]
        else:
            if deep_sym(a) or deep_sym(k):
                return OpaqueStr()
            return fmt.format(*a, **k)
        if conv == 'r':
            v = repr(v)
        elif conv == 's':
            v = str(v)
        if isinstance(v, Sym):
            r = fmt_value(v, spec or '')
            if r is None:
                return OpaqueStr()
            out += r
        elif deep_sym(v):
            return OpaqueStr()
        else:
            out += list(format(v, spec or ''))
    return mkstr(out)


# ---------------------------------------------------------------- iteration
def sx_iter(it):
    if isinstance(it, Sym):
        if isinstance(it, SymStr):
            return iter([mkstr([c]) for c in it.items])
        if isinstance(it, SymBytes):
            return iter([x if isinstance(x, int) else SymInt(x) for x in it.items])
        if isinstance(it, SymEnum):
            return iter(concretize_enum(it))
        h = getattr(it, "sx_iter", None)
        if h is not None:
            return h()
        raise Unsupported(f"iter({type(it).__name__})")
    return iter(it)


# ---------------------------------------------------------------- attribute access
_static_cache = {}


def _is_ofx_mod(m):
    if not isinstance(m, str):
        return False
    for p in INSTRUMENT_PREFIXES:
        if m == p or m.startswith(p + "."):
            return True
    return False


def _is_ofx(obj):
    return _is_ofx_mod(getattr(obj, '__module__', None))


def _static_kind(cls, name, on_type):
    key = (cls, name, on_type)
    r = _static_cache.get(key)
    if r is not None:
        return r
    st = None
    found = False
    for b in cls.__mro__:
        if name in vars(b):
            st = vars(b)[name]
            found = True
            break
    if not found:
        ga = None
        if not on_type:
            for b in cls.__mro__:
                if '__getattr__' in vars(b):
                    ga = vars(b)['__getattr__']
                    break
        r = ('missing', ga if (ga is not None and _is_ofx(ga)) else None)
    elif isinstance(st, functools.singledispatchmethod):
        r = ('sdm', st)
    elif type(st) is property and not on_type and st.fget is not None and _is_ofx(st.fget):
        r = ('prop', st)
    else:
        r = ('plain', st)
    _static_cache[key] = r
    return r


class SxDispatch:
    """functools.singledispatchmethod resolved with the symbolic-aware type of the first argument"""

    def __init__(self, sdm, obj):
        self.sdm, self.obj = sdm, obj

    def __call__(self, *args, **kw):
        func = self.sdm.dispatcher.dispatch(pytype(args[0]))
        if isinstance(func, types.MethodType):
            return call(func, *args, **kw)
        if isinstance(func, (classmethod, staticmethod)):
            func = func.__func__
        return call(types.MethodType(func, self.obj), *args, **kw)

    @property
    def register(self):
        return self.sdm.__get__(self.obj, type(self.obj)).register


def getattr_(o, name):
    if isinstance(o, Sym):
        pt = pytype(o)
        m = SYM_METHODS.get((pt, name))
        if m is not None:
            return BoundModel(m, o)
        for h in SYM_ATTR_HOOKS:
            r = h(o, name)
            if r is not NotImplemented:
                return r
        if name == '__class__':
            return pt
        raise Unsupported(f"attribute {name} on {type(o).__name__}")
    if ATTR_OVERRIDES:
        ov = ATTR_OVERRIDES.get((id(o), name))
        if ov is not None:
            return ov
    to = type(o)
    m = CONC_METHODS.get((to, name))
    if m is not None:
        return BoundModel(m, o)
    for h in GETATTR_HOOKS:
        r = h(o, name)
        if r is not NotImplemented:
            return r
    is_type = isinstance(o, type)
    cls = o if is_type else to
    if _is_ofx(cls) and cls not in NATIVE_TYPES:
        kind, st = _static_kind(cls, name, is_type)
        if kind == 'sdm':
            return SxDispatch(st, o)
        if kind == 'prop':
            return call(st.fget, o)
        if kind == 'missing' and st is not None and not is_type and name not in getattr(o, '__dict__', {}):
            return call(st, o, name)
    return getattr(o, name)


def super_(cls, obj):
    """zero-argument super() of instrumented code; model twins of a class (sx.models.etree) stand in for it"""
    t = obj if isinstance(obj, type) else type(obj)
    if getattr(t, '__sx_model_of__', None) is cls:
        return super(t, obj)
    return super(cls, obj)


WRITES = []   # (obj, name) attribute stores performed by instrumented code on the current path


def setattr_(o, name, v):
    cls = type(o)
    if _is_ofx(cls) and cls not in NATIVE_TYPES:
        for b in cls.__mro__:
            if name in vars(b):
                d = vars(b)[name]
                td = type(d)
                if _is_ofx(td) and hasattr(td, '__set__'):
                    WRITES.append((o, name))
                    setter = None
                    for bb in td.__mro__:
                        if '__set__' in vars(bb):
                            setter = vars(bb)['__set__']
                            break
                    return call(types.MethodType(setter, d), o, v)
                break
    WRITES.append((o, name))
    return setattr(o, name, v)


# ---------------------------------------------------------------- calls
_NATIVE_CONTAINER_METHODS = {'append', 'pop', 'extend', 'insert', 'setdefault', 'update', 'items', 'keys',
                             'values', 'add', 'clear', 'copy', 'remove', 'popitem', 'sort', 'reverse'}


def _mro_init(cls):
    for b in cls.__mro__:
        if '__init__' in vars(b):
            f = vars(b)['__init__']
            return f if (isinstance(f, types.FunctionType) and _is_ofx(b)) else None
    return None


ITER_CONSUMERS = {sum, min, max, any, all, sorted, list, tuple, set, enumerate, zip, reversed, map, filter}
_ITER_TYPES = (types.GeneratorType, map, zip, filter, enumerate, reversed, type(iter([])), type(iter(())), type(iter({})), type(iter(set())))


def _one_shot(a):
    return isinstance(a, _ITER_TYPES)


def call(f, *args, **kw):
    if isinstance(f, BoundModel):
        return f(*args, **kw)
    if OVERRIDES:
        ov = OVERRIDES.get(id(f))
        if ov is not None:
            return ov(*args, **kw)
        if isinstance(f, types.MethodType):
            ov = OVERRIDES.get(id(f.__func__))
            if ov is not None:
                return ov(f.__self__, *args, **kw)
    slf = getattr(f, '__self__', None)
    if slf is not None and type(slf) in NATIVE_TYPES:
        return f(*args, **kw)
    if type(f) in NATIVE_TYPES or (isinstance(f, type) and f in NATIVE_TYPES):
        return f(*args, **kw)
    for h in CALL_HOOKS:
        r = h(f, args, kw)
        if r is not None:
            return r[1]
    try:
        model = MODELS.get(f)
        if model is None and f in NATIVE_FUNCS:
            return f(*args, **kw)
    except TypeError:
        model = None
    if model is not None and args and f in ITER_CONSUMERS and any(_one_shot(a) for a in args):
        # one-shot iterators (map objects, generator expressions, zip ...) may carry symbolic items that deep_sym cannot see:
        # the modelled consumers (sum, min, max, any, all, sorted, list, ...) get them materialised
        args = tuple(list(a) if _one_shot(a) else a for a in args)
    if model is not None and (f in ALWAYS_MODEL or deep_sym(args) or deep_sym(kw)):
        return model(*args, **kw)
    if isinstance(f, SxDispatch):
        return f(*args, **kw)
    if isinstance(f, type):
        if _is_ofx(f):
            init = _mro_init(f)
            if init is not None:
                obj = f.__new__(f)
                call(types.MethodType(init, obj), *args, **kw)
                return obj
        return _native(f, args, kw)
    if isinstance(f, types.MethodType):
        g = instrumented(f.__func__)
        if g is not None:
            return g(f.__self__, *args, **kw)
        return _native(f, args, kw)
    if isinstance(f, types.FunctionType):
        if hasattr(f, 'registry') and hasattr(f, 'dispatch') and args:
            impl = f.dispatch(pytype(args[0]))
            return call(impl, *args, **kw)
        g = instrumented(f)
        if g is not None:
            return g(*args, **kw)
        return _native(f, args, kw)
    if isinstance(f, functools.partial):
        return call(f.func, *f.args, *args, **{**f.keywords, **kw})
    origin = getattr(f, '__origin__', None)
    if origin is not None and isinstance(origin, type):
        return call(origin, *args, **kw)          # typing aliases such as typing.ChainMap
    return _native(f, args, kw)


def _native(f, args, kw):
    if deep_sym(args) or deep_sym(kw):
        slf = getattr(f, '__self__', None)
        name = getattr(f, '__name__', '')
        if slf is not None and isinstance(slf, (list, dict, set)) and not isinstance(slf, type):
            if isinstance(slf, dict) and name in ('setdefault', 'pop', '__contains__', '__getitem__', '__setitem__', '__delitem__') and args and isinstance(args[0], Sym):
                # a symbolic key: an enumeration is decided (forks over its tokens); any other symbolic key is identified with an
                # existing key the solver finds equal, otherwise it is a new key
                key = concretize_enum(args[0]) if isinstance(args[0], SymEnum) else args[0]
                if isinstance(key, Sym):
                    for k in list(slf):
                        if truth(compare('==', k, key)):
                            key = k
                            break
                return f(key, *args[1:], **kw)
            if name in _NATIVE_CONTAINER_METHODS:
                return f(*args, **kw)
            if isinstance(slf, dict) and name == 'get':
                return dict_get(slf, *args)
            if isinstance(slf, list) and name == 'index':
                return list_index(slf, *args)
            if isinstance(slf, list) and name == 'count':
                return m_sum([compare('==', x, args[0]) for x in slf])
        if name == 'fromkeys' and slf is dict and args and not deep_sym(list(args[0])):
            return f(*args, **kw)         # concrete keys, one (possibly symbolic) value shared by all of them
        if f is functools.reduce:
            return _reduce(*args)
        if isinstance(f, (operator.attrgetter, operator.itemgetter, operator.methodcaller)):
            if isinstance(f, operator.attrgetter) and len(args) == 1 and isinstance(args[0], Sym):
                names = f.__reduce__()[1]           # the attribute names the getter was built with
                vals = []
                for nm in names:
                    o = args[0]
                    for part in nm.split("."):
                        o = getattr_(o, part)
                    vals.append(o)
                return vals[0] if len(vals) == 1 else tuple(vals)
            return f(*args, **kw)
        if f in (dict, copy.deepcopy, copy.copy, iter, next, id):
            return f(*args, **kw)
        if isinstance(slf, ET.Element) or f is ET.SubElement or f is ET.Element:
            return f(*args, **kw)
        if isinstance(f, type) and (issubclass(f, tuple) or issubclass(f, BaseException) or f.__module__ == 'types'):
            return f(*args, **kw)     # NamedTuples / exceptions carrying symbolic members
        if isinstance(f, type) and not _is_ofx(f) and getattr(f, '__module__', '') in ('collections', 'typing'):
            return f(*args, **kw)
        if getattr(f, '__module__', None) == 'itertools' or (isinstance(f, type) and f.__module__ == 'itertools'):
            return f(*args, **kw)
        if slf is not None and isinstance(slf, (logging.Logger,)):
            return None
        raise Unsupported(f"native call with symbolic arguments: {getattr(f, '__qualname__', f)!r}")
    slf = getattr(f, '__self__', None)
    if isinstance(slf, dict) and getattr(f, '__name__', '') in ('get', '__getitem__', '__contains__', 'pop') and any(isinstance(k, Sym) for k in slf):
        if f.__name__ == 'get':
            return dict_get(slf, *args)
        raise Unsupported("dict with symbolic keys: " + f.__name__)
    if isinstance(slf, logging.Logger):
        return None
    return f(*args, **kw)


def _reduce(fn, seq, *init):
    it = sx_iter(seq)
    if init:
        acc = init[0]
    else:
        acc = next(it)
    for x in it:
        acc = call(fn, acc, x)
    return acc


def dict_get(d, key, default=None):
    if isinstance(key, SymEnum):
        key = concretize_enum(key)
    if not isinstance(key, Sym) and not any(isinstance(k, Sym) for k in d):
        return d.get(key, default)
    for k, v in d.items():
        if truth(compare('==', k, key)):
            return v
    return default


def list_index(lst, item, *rest):
    for i, k in enumerate(lst):
        if truth(compare('==', k, item)):
            return i
    raise ValueError("not in list")


def m_warn(message, category=None, stacklevel=1, source=None):
    cat = type(message) if isinstance(message, Warning) else (category or UserWarning)
    WARNINGS.append((cat, message))
    # surface it to an enclosing warnings.catch_warnings(record=True) of the harness (message text is opaque)
    warnings.warn("<sx symbolic run>", cat, stacklevel=2)


MODELS[warnings.warn] = m_warn
ALWAYS_MODEL.add(warnings.warn)


# ---------------------------------------------------------------- concretisation (path witnesses)
CONC_SALT = [0]     # varied by the concrete completion of cut paths, so that inputs the path never constrained differ between runs


def _ev_char(c, model):
    """code point of a symbolic character under the model; a character the path never constrained (no interpretation in the
    model) gets a value *of its domain* - not chr(0) - picked by name and CONC_SALT"""
    t = c.t
    v = model.eval(t, model_completion=False)
    if z3.is_int_value(v):
        return v.as_long()
    dom = getattr(c, 'dom', None)
    if dom and z3.is_const(t) and t.decl().kind() == z3.Z3_OP_UNINTERPRETED:
        size = sum(hi - lo + 1 for lo, hi in dom)
        k = 0 if not CONC_SALT[0] else (sum(map(ord, t.decl().name())) * 31 + CONC_SALT[0] * 7919) % size
        for lo, hi in dom:
            if k <= hi - lo:
                return lo + k
            k -= hi - lo + 1
    return model.eval(t, model_completion=True).as_long()


def concretize(v, model, depth=0):
    """Plain-python value of v under a z3 model."""
    if isinstance(v, Sym):
        if isinstance(v, SymInt):
            return model.eval(v.t, model_completion=True).as_long()
        if isinstance(v, SymBool):
            return z3.is_true(model.eval(v.t, model_completion=True))
        if isinstance(v, SymChar):
            return chr(_ev_char(v, model))
        if isinstance(v, SymStr):
            return "".join(c if isinstance(c, str) else chr(_ev_char(c, model)) for c in v.items)
        if isinstance(v, SymBytes):
            return bytes(x if isinstance(x, int) else model.eval(x, model_completion=True).as_long() for x in v.items)
        if isinstance(v, SymEnum):
            k = model.eval(v.idx, model_completion=True).as_long()
            return v.options[k] if 0 <= k < len(v.options) else v.options[0]
        if isinstance(v, OpaqueStr):
            return "<opaque>"
        for h in CONCRETIZERS:
            r = h(v, model)
            if r is not NotImplemented:
                return r
        raise Unsupported(f"concretize {type(v).__name__}")
    if depth > 12:
        return v
    if isinstance(v, list):
        return [concretize(x, model, depth + 1) for x in v]
    if isinstance(v, tuple):
        t = tuple(concretize(x, model, depth + 1) for x in v)
        if hasattr(v, '_fields'):
            return type(v)(*t)
        return t
    if isinstance(v, dict):
        return {concretize(k, model, depth + 1): concretize(x, model, depth + 1) for k, x in v.items()}
    return v


from .instrument import instrumented  # noqa: E402  (cyclic by design)
