#!/bin/sh
# tools/try_seed.sh <patch.diff> <PID> [tier] [extra vcheck args]
# Apply a seeded change to /repo, run the property's check, and ALWAYS undo the change afterwards.
V="$(cd "$(dirname "$0")/.." && pwd)"
P="$1"; PID="$2"; TIER="${3:-quick}"; if [ $# -ge 3 ]; then shift 3; else shift 2; fi
if [ -n "$(git -C /repo status --porcelain --untracked-files=no)" ]; then echo "refusing: /repo has uncommitted changes"; exit 2; fi
git -C /repo apply --check "$P" || { echo "patch does not apply"; exit 2; }
git -C /repo apply "$P"
trap 'git -C /repo checkout -- . >/dev/null 2>&1' EXIT INT TERM
cd "$V" && ./vcheck "$PID" --tier "$TIER" "$@"
rc=$?
echo "[try_seed] $PID exit=$rc"
exit $rc
