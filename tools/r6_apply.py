"""Writes seeded/r6-*/meta.json and inserts the round-6 rows into DESIGN.md from tools/r6_table.py and the recheck logs in /tmp/ev."""
import json, re, os, sys
sys.path.insert(0, os.path.dirname(__file__))
from r6_table import R6
V = os.path.dirname(os.path.dirname(os.path.abspath(__file__)))
rows = []
for pid in sorted(R6):
    need, caught0, strength = R6[pid]
    log = f"/tmp/ev/final-{pid}.log"
    line = [l for l in open(log) if l.startswith("[recheck]")][-1] if os.path.exists(log) else ""
    m = re.search(r"violations=(\d+) harness_errors=(\d+) .* exit=(\d)", line)
    viol, herr, rc = (int(m.group(1)), int(m.group(2)), int(m.group(3))) if m else (None, None, None)
    assert rc == 1 and viol and viol > 0, (pid, line)
    meta = {
        "id": f"r6-{pid}", "breaks_property": pid,
        "origin": "sub-agent given only the property text and a scratch worktree; steered towards cooperating edits, error / exception paths, process environment and ambient state, rarely used classes and unusual-but-valid inputs, interactions of two features; told to avoid size thresholds and the triggers over-used in earlier rounds",
        "needs_to_manifest": need,
        "confirmed": {"patch_applies_to": "/repo HEAD (with the fix: commits)", "suite_with_change": "3592 passed", "demo_without_change": "exit 0",
                      "demo_with_change": "exit 1", "how": f"tools/ingest_seed.sh r6 {pid} -> tools/eval_seed.sh (fresh scratch worktree, removed afterwards)"},
        "check_result": {"check": f"./vcheck {pid} --tier quick", "verdict": "VIOLATION (exit 1), counterexample replayed on the changed code",
                         "violations_reported": viol, "caught_before_strengthening": caught0, "checks_before_strengthening": "commit 6eda7bf",
                         "strengthening": strength, "how": f"tools/recheck_seed.sh seeded/r6-{pid} {pid} quick"},
    }
    json.dump(meta, open(f"{V}/seeded/r6-{pid}/meta.json", "w"), indent=1)
    rows.append(f"| r6-{pid} | {pid} | {need} | `./vcheck {pid} --tier quick` | {'caught' if caught0 else 'MISSED'} | {strength} |")
p = f"{V}/DESIGN.md"
s = open(p).read()
if "| r6-C01 |" not in s:
    anchor = "\n*Round 5 and what bounds mean here.*"
    assert anchor in s
    s = s.replace(anchor, "\n".join(rows) + "\n" + anchor, 1)
    # the table rows must directly follow the r5 rows: remove the blank line the replace left in between
    s = s.replace("(memo whose keys and values go out of step on eviction): valid identifiers rejected, changed check characters accepted | `./vcheck C20 --tier quick` | MISSED | obligations also after 300 distinct well-formed identifiers through every function |\n\n| r6-C01", "(memo whose keys and values go out of step on eviction): valid identifiers rejected, changed check characters accepted | `./vcheck C20 --tier quick` | MISSED | obligations also after 300 distinct well-formed identifiers through every function |\n| r6-C01")
    open(p, "w").write(s)
print("ok", len(rows))
