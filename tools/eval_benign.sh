#!/bin/sh
# tools/eval_benign.sh <dir containing patch.diff> <PID> [tier]
# A behaviour-preserving change of the code a property depends on: applies it in a fresh scratch worktree, runs the unedited suite
# and then the property's check against that worktree.  Expected: exit 0, no VIOLATION, no HARNESS-ERROR.  The worktree is removed.
S="$1"; PID="$2"; TIER="${3:-quick}"
V="$(cd "$(dirname "$0")/.." && pwd)"
W=/tmp/ev/b-$(basename "$S")-$$
mkdir -p /tmp/ev
git -C /repo worktree add -q --detach "$W" HEAD || exit 2
cleanup() { git -C /repo worktree remove --force "$W" >/dev/null 2>&1; }
trap cleanup EXIT INT TERM
( cd "$W" && git apply "$S/patch.diff" ) || { echo "[benign] $(basename $S): patch does not apply"; exit 2; }
t=$( cd "$W" && /venv/bin/python -m pytest -q -p no:cacheprovider -n 6 2>&1 | tail -1 )
L=/tmp/ev/benign-$(basename "$S")-$PID.log
"$V/tools/try_seed_wt.sh" "$W" "$PID" "$TIER" > "$L" 2>&1
grep -E "harness=|^HARNESS-ERROR" "$L" | cut -c1-300 | head -4
echo "[benign] $(basename $S) vs $PID: suite: $t; violations=$(grep -c '^VIOLATION' $L) harness_errors=$(grep -c '^HARNESS-ERROR' $L) $(grep -E 'try_seed' $L) $(grep -E "^\[$PID\]" $L | sed 's/.*inconclusive=/inconclusive=/')"
