#!/usr/bin/env python3
"""Regenerate /verif/MANIFEST.json from the table below (kept next to the code so the two do not drift)."""
import json, os

V = os.path.dirname(os.path.dirname(os.path.abspath(__file__)))
TECH = "bounded symbolic execution of the real Python source (sx: AST-instrumented, z3 decides every branch and obligation); counterexamples and every path witness are replayed on the uninstrumented code"

ADDED = (" Instances added after the seeded rounds (DESIGN.md 5.3): preceding workloads (failed parses, other classes, 300-400 earlier calls "
         "through the same function), long concrete context around the symbolic part (kilobyte-sized files with the symbolic character at "
         "power-of-two offsets, lists of 15-40 members, texts of the full declared length) and rarely used parameters; ambient state as an "
         "input (the library loaded as python -O loads it, process-local time zone, the application's warning filters), injected faults "
         "(network, HTTP, cache write), values at discontinuities (PEP 495 fold, last half millisecond before an offset change) and wider "
         "lexical spaces (digits of other scripts, characters whose case mapping lands in ASCII, grouping-like decimals, entity text that "
         "decodes to blanks, every INI boolean spelling); every run has an "
         "overall wall budget and reports what it skipped; the exact bounds of a run are in its evidence file.")

# id -> (claimed?, level text, level note, design ref, technique suffix)
CHECKS = {
    "C20": (True,
            "Every CUSIP/SEDOL/ISIN base over the full alphabets is covered symbolically: per path z3 proves the library's "
            "check digit equals an independent arithmetic reference, that the completed id validates, that any other check "
            "character fails, and that cusip2isin/sedol2isin embed and validate. Bounded only by the fixed identifier lengths "
            "(other lengths 0-13 are separate obligations). Bounded model checking, not a proof.",
            "Trusted: z3, the sx models of int()/str()/dict.get/str ops (validated per path against the real code), the "
            "reference algorithms in harness/c20.py.",
            "DESIGN.md section 3 C20", ""),
    "C09": (True,
            "All digits of every notation shape (date, date-time, +ms, every offset form, zone names) are symbolic; z3 proves per path "
            "that the real DateTime/Time converters return the aware UTC instant an independent calendar arithmetic assigns, that every "
            "single-field out-of-range / inserted / deleted / non-digit corruption raises, and that the writer's text (8 output shapes) "
            "denotes the original instant within 500us for every instant 1900-2200 x every whole-minute offset -12:00..+14:00. "
            "Bounded (years, name length, one corruption at a time); not a proof.",
            "Trusted: z3; sx models of re (backtracking over the real compiled patterns), int(), datetime/timedelta arithmetic, strftime "
            "(each validated per path on the real code); the reference calendar arithmetic in harness/c09.py.",
            "DESIGN.md section 3 C09", ""),
    "C10": (True,
            "For each element type and parameterisation (lengths None/1/2/3, scales None/1/2/3, required or not, three enumeration sets) "
            "values and texts are symbolic over the whole bounded domain; z3 proves write-escape-read identity, canonical fixed points, "
            "None handling, acceptance exactly up to the limit and rejection beyond it / of foreign characters. Wrong Python types are a "
            "finite side list. Bounded model checking.",
            "Trusted: z3; models of saxutils.unescape (instrumented source), str.replace, int/str, decimal.Decimal (validated per path); "
            "the reference entity decoder / half-even quantizer in harness/c10.py.",
            "DESIGN.md section 3 C10", ""),
    "C11": (True,
            "Per-type layer: for every value the converter accepts (Decimals sign x coef<10^6 x exponent -30..+30 plus special literals, "
            "integers |v|<=10^7 and bools, booleans, enumeration tokens, bounded strings, date-times via the C09 writer) the written text is "
            "matched against the OFX lexical rule by running the rule's regex through the symbolic regex engine; z3 must find no accepted "
            "value whose text falls outside the rule. The per-class layer / wire escaping is covered under C01, C06, C13.",
            "Trusted: z3; models of Decimal str/format/quantize, str(int), strftime, regex (validated per path on the real code).",
            "DESIGN.md section 3 C11", ""),
    "C12": (True,
            "make_header over every integer version 0..1099 (and 1-4 character version texts), symbolic security level and UIDs of 1-3/36/37 "
            "characters: z3 proves the kind routing, refusal of everything unsupported with OFXHeaderError, and that str(header)+body parses "
            "back (real parse_header over a BytesIO model) to equal fields. Corruption side: one field value replaced by symbolic characters "
            "outside its domain, one mandatory field omitted, two adjacent fields transposed - never a header object.",
            "Trusted: z3; models of re, BytesIO, ascii codec, str.join/format (validated per path on the real code).",
            "DESIGN.md section 3 C12", ""),
    "C04": (True,
            "Per class (core classes + seeded tenth in quick, all in thorough), both construction routes run through the instrumented "
            "__init__/validate_args/_apply_args/from_etree/_convert: every presence combination of each exclusivity group (union over the MRO), "
            "each required child omitted, strings at length and length+1 (symbolic characters), integers around 10^n (symbolic), foreign "
            "enumeration tokens (symbolic strings constrained unequal to every token), one swap/duplicate/move of a child, list members of "
            "declared and foreign classes. Oracle: validator derived from the declarations.",
            "Trusted: z3; the reflection helpers in ofxgen.py (base instances), the reference validator in harness/c04.py. Classes overriding "
            "validate_args are only required to reject violations.",
            "DESIGN.md section 3 C04", ""),
    "C13": (True,
            "Exhaustive over all exported aggregate classes and every declared child (finite 'programs' space iterated; each probe's value "
            "symbolic): an instance with the child is constructible, to_etree writes it under its tag with the converter's text, from_etree "
            "reads it back into the same attribute with no unknown-tag warning; members of every list attribute (symbolic order) survive the "
            "library's own writer+reader; every exclusivity group names existing non-repeated optional children and can fire; tags resolve to "
            "the class of the same name.",
            "Trusted: z3; ofxgen.py reachability search (native); harness/common.py structural equality.",
            "DESIGN.md section 3 C13", ""),
    "C16": (True,
            "Per class, an instance with symbolic presence of optional sub-aggregates and a symbolic attribute name (names declared below the "
            "class, undefined names, protocol dunders) goes through the instrumented Aggregate.__getattr__; oracle = explicit walk over __dict__. "
            "hasattr/getattr-default/copy/deepcopy/pickle are run on every explored instance; the statements/securities/signon/account/... "
            "shortcuts are compared with the path walk over symbolic mixes of wrappers.",
            "Trusted: z3; ofxgen.py instance construction; reference walk in harness/c16.py. copy/pickle themselves run natively.",
            "DESIGN.md section 3 C16", ""),
    "C03": (True,
            "Per class, the document of a valid instance with one element text symbolic over its type's lexical space (Y/N, signed digits, "
            "decimals with either separator, character data with an entity escape at a symbolic position, every enumeration token, date-time and "
            "time notations with symbolic digits; for lists the member position is symbolic) goes through the instrumented "
            "from_etree/_convert/update_args/__init__/descriptors/converters; z3 proves the attribute equals an independent implementation of the "
            "type rules, has the native type, and that nothing else changed.",
            "Trusted: z3; reference type rules of harness/c09.py and c10.py; ofxgen.py documents.",
            "DESIGN.md section 3 C03", ""),
    "C07": (True,
            "Per class, one (quick) or two (thorough) nodes are inserted at a symbolic position of a symbolic host aggregate (depth <= 2): unknown "
            "data element / empty element / aggregate with otherwise-known content, with a symbolic 2-character tag constrained to differ from every "
            "child name, or vendor-prefixed element / aggregate; the instrumented from_etree must not raise and must return a model structurally "
            "equal to the conversion of the clean document, with one UnknownTagWarning per non-vendor insertion.",
            "Trusted: z3; harness/common.py structural equality; element-tree carriers are real ET.Element objects.",
            "DESIGN.md section 3 C07", ""),
    "C01": (True,
            "Compositional: (1) structure lemma per class - symbolic presence of optional children, symbolic member types/order, symbolic leaf "
            "values through the instrumented to_etree and from_etree, result structurally equal; (2) value lemma = C10; (3) wire lemma - trees "
            "<= 4 nodes with symbolic leaf texts over the printable alphabet (incl. & < > and 2-/3-byte UTF-8) through the real "
            "OFXClient.serialize (all 1xx versions / supported 2xx, pretty x close_elements), parse_header and TreeBuilder.feed over a C-faithful "
            "builder model: same tree, texts decode to the originals.",
            "Trusted: z3; models of ET.tostring(method=html), BytesIO, utf-8 codec, the C TreeBuilder state machine (each validated per path "
            "against the real implementation); composition argument of DESIGN section 3 C01.",
            "DESIGN.md section 3 C01", ""),
    "C02": (True,
            "A symbolic tree (skeletons <= 3/4 nodes, symbolic 1-2 character tags so that name clashes are decided by the solver, symbolic data "
            "over the printable alphabet) is rendered by an independent renderer under symbolic choices (end tag of each data element present or "
            "not, CDATA or not, white space of symbolic length and content between tokens) and fed to the real TreeBuilder.feed/_feedmatch/"
            "_start/_groomstring through the symbolic regex engine executing the real tokenizer pattern; the result must be exactly the source tree.",
            "Trusted: z3; regex engine model; C-faithful TreeBuilder model (validated per path against the real C implementation); harness/render.py.",
            "DESIGN.md section 3 C02", ""),
    "C08": (True,
            "(a) token sequences of <= 5/6 tokens whose kinds and tag identities are symbolic: whenever the reference stack discipline rejects "
            "the sequence the real parser (feed + close) must fail; properly nested sequences must be accepted. (b) every rendering of every small "
            "tree cut at a symbolic index before its last '>' must fail.",
            "Trusted: z3; regex engine and TreeBuilder models (validated per path); the reference predicate in harness/c08.py.",
            "DESIGN.md section 3 C08", ""),
    "C05": (True,
            "v1: header with symbolic VERSION digits / tokens / UIDs, separator kind A after each field and kind B at a symbolic position, "
            "optional blank after a symbolic colon, leading blank lines, six header/body gaps, body '<'+symbolic characters+'>' over everything "
            "encodable in the declared charset (incl. CR/LF, cp1252-only characters, multi-byte UTF-8); v2: quote style and line breaks of each "
            "declaration. The real parse_header runs over BytesIO/codec models; returned fields and text must equal what was assembled.",
            "Trusted: z3; models of BytesIO, ascii/latin_1/cp1252/utf_8 codecs (cp1252 table read from the real codec), regex (validated per path).",
            "DESIGN.md section 3 C05", ""),
    "C06": (True,
            "The whole request path is executed symbolically: OFXClient.__init__, request_statements/accounts/tax1099/_request_profile, signon, "
            "the five *trnrq builders, wrap_stmtrq dispatch, sort/groupby, serialize, make_header, indent, tostring_unclosed_elements; the bytes "
            "are read back by the library's own parse_header/TreeBuilder/from_etree (also symbolic) and compared with what was asked: header kind and "
            "version, one sign-on with the supplied (symbolic, full printable range) credentials and identity fields, CLIENTUID rule at 103, one "
            "wrapper per request with identifiers/type/dates/flags under the right message set in request order, distinct transaction ids.",
            "Trusted: z3; the read-back path (its fidelity is C01/C02/C03); uuid4 and the clock run natively. Dates with arbitrary offsets are "
            "symbolic only in the thorough tier (quick uses three concrete zoned instants and relies on C09's writer result).",
            "DESIGN.md section 3 C06", ""),
    "C19": (True,
            "request_stmt / request_stmtend run symbolically with a recording client: symbolic presence and 1-character ids of the accounts of each "
            "type, symbolic presence and digits of the three dates, symbolic include flags; with --all the account-info response is a real model "
            "tree with entries of symbolic kind / account type / id / SVCSTATUS. z3 proves the recorded request tuple is exactly one request per "
            "configured (resp. ACTIVE) account with that account's type, ids, dates and flags.",
            "Trusted: z3; stubs init_client (recording) and OFXTree (prepared response); C09 for the date conversion; C06 for tuple -> wire.",
            "DESIGN.md section 3 C19", ""),
    "C14": (True,
            "All four request entry points run symbolically against effect-logging stubs of urllib / file system / response parsing, with symbolic "
            "dryrun, skip_profile, persist_cookies, cache presence and symbolic configured / advertised URLs (equal or different decided by the "
            "solver). Obligations are stated on the effect log of every path: no effect on dry run, one POST per request with the OFX headers, "
            "profile POST to the configured URL with placeholder credentials only, credentialed POST only to the advertised URL, opener built "
            "over the client's own cookie jar.",
            "Trusted: z3; the stubs' contracts (urllib.request, pathlib, open, os.replace); stdlib cookie semantics themselves and the "
            "`requests` transport (not installed) are outside the claim.",
            "DESIGN.md section 3 C14", ""),
    "C15": (True,
            "Inductive step: one real request_profile call from an arbitrary valid pre-state (cache absent or a complete profile with symbolic "
            "date) against each server behaviour with symbolic dates / status codes - returned profile, date sent, cache post-state. Crash: the "
            "write-side effect trace extracted from the real code on every run is cut at a symbolic index and a follow-up request is run from "
            "that state. Interleaving: two writers' extracted steps under a symbolic schedule with symbolic content lengths on a POSIX file model.",
            "Trusted: z3; file model (open('wb') truncates, write at own offset, os.replace atomic); abstract profile payloads. Thread "
            "interleavings finer than the file operations are outside the model.",
            "DESIGN.md section 3 C15", ""),
    "C18": (True,
            "Precedence: for every configurable option the subset of places that set it is symbolic (command line, user section, library "
            "section, OFX Home lookup); merge_config/read_config/merge_from_ofxhome run instrumented and the effective value must be the "
            "highest-ranking one, independently of other options. Persistence: from a symbolic prior file state, --write of a symbolic choice "
            "among candidate values (incl. '%' URLs, the library default, multi-element lists), then a run without the option, then another "
            "--write: same effective value, no password stored, nothing on dry run, one default CLIENTUID kept.",
            "Trusted: z3 (decides the symbolic choices; values are concrete candidates because configparser rejects symbolic strings); real "
            "configparser on a private temporary directory; argparse and the FI database content are outside the claim.",
            "DESIGN.md section 3 C18", ""),
    "C17": (True,
            "Claimed for the part a solver reaches: on every symbolic path of per-class convert / serialize / parse harnesses (one symbolic "
            "element text or leaf value, an unrelated workload in between, repetition) native fingerprints of the input objects (element tree, "
            "model instance, source bytes) and of the library's class-level state (converter objects, class attributes, dispatch registries by "
            "underlying function, module constants) must be unchanged and the repeated result equal. The one shared write - "
            "DateTime.normalize_to_gmt re-registering an unconvert handler bound to the last converter - is discharged by a relational "
            "obligation over a symbolic instant and offset (non-interference in self).",
            "Trusted: z3; the fingerprint functions. NOT encoded: CPython-level thread interleavings (functools.singledispatch cache, warnings "
            "registry) and 1..16-thread stress - purity on every path is the argument for schedule independence.",
            "DESIGN.md section 3 C17", ""),
}

NOT_YET = {
}


def main():
    props = [json.loads(l) for l in open(os.path.join(V, "properties.jsonl"))]
    checks = []
    na = []
    for p in props:
        pid = p["id"]
        c = CHECKS.get(pid)
        if c and c[0]:
            checks.append(dict(
                property_id=pid,
                quick_cmd=f"./vcheck {pid} --tier quick",
                thorough_cmd=f"./vcheck {pid} --tier thorough",
                evidence_file=f"evidence/{pid}.json",
                replay_cmd_template="./vcheck replay {path}",
                engine="sx",
                level_claimed=dict(category="model_checking", text=c[1] + ADDED, design_ref=c[3]),
                level_note=c[2],
                technique=TECH + (("; " + c[4]) if c[4] else ""),
            ))
        else:
            na.append(dict(property_id=pid, reason=NOT_YET.get(pid, "check not built yet in this session (claimed in DESIGN.md; harness under construction)")))
    m = dict(
        version=1,
        setup_cmd="sh tools/ensure_env.sh",
        hooks=dict(guard="OFXTOOLS_VERIF", enable="none needed: instrumentation happens in the checker's process from the source text of /repo's working tree",
                   baseline_off_cmd="cd /repo && /venv/bin/python -m pytest -q -p no:cacheprovider --timeout=900 -n 8",
                   source_commits=[], add_only=True),
        engines=[
            dict(name="sx", path="sx/", serves_properties=[c["property_id"] for c in checks],
                 kind_free_text="source-instrumenting symbolic executor for Python (ast.NodeTransformer + runtime + z3); DFS over solver-decided branches; obligations discharged by z3 (portfolio fallback /usr/bin/z3 4.8.12); per-path witness replay on the real code"),
        ],
        checks=checks,
        not_applicable=na,
        notes="Exit codes: 0 held / only listed known findings; 1 VIOLATION (replayed on the real code, in a fresh interpreter if state left "
              "by the symbolic run masks it); 3 harness error (never a verdict). VERIF_RUN_WALL=<seconds> overrides the overall wall budget of a run "
              "(quick 780 s, thorough 1800 s; C09 thorough 2400 s). "
              "known_findings.json is read-only at run time.",
    )
    with open(os.path.join(V, "MANIFEST.json"), "w") as f:
        json.dump(m, f, indent=1)
    print("wrote MANIFEST.json:", len(checks), "checks,", len(na), "not_applicable")


if __name__ == "__main__":
    main()
