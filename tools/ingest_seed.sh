#!/bin/sh
# tools/ingest_seed.sh <round> <PID>   e.g. r6 C07
# Takes the change a sub-agent left in its scratch worktree /tmp/<round>/<PID> (uncommitted diff + demo.py + notes.md),
# stores it as seeded/<round>-<PID>/ and confirms it with tools/eval_seed.sh (fresh worktree; suite; demo both ways; quick check).
R="$1"; P="$2"
V="$(cd "$(dirname "$0")/.." && pwd)"
W=/tmp/$R/$P
D="$V/seeded/$R-$P"
mkdir -p "$D"
git -C "$W" diff -- ofxtools > "$D/patch.diff"
[ -s "$D/patch.diff" ] || { echo "[ingest] no diff in $W"; exit 2; }
cp "$W/demo.py" "$D/demo.py" || exit 2
[ -f "$W/notes.md" ] && cp "$W/notes.md" "$D/notes.md"
"$V/tools/eval_seed.sh" "$D" "$P" quick
