#!/bin/sh
# tools/eval_seed.sh <seed dir containing patch.diff and demo.py> <PID> [tier]
# Confirms a seeded change in a fresh scratch worktree (applies cleanly, suite passes with it, demo fails with / passes without it),
# then runs the property's check against that worktree.  The worktree is removed afterwards.
S="$1"; PID="$2"; TIER="${3:-quick}"
V="$(cd "$(dirname "$0")/.." && pwd)"
W=/tmp/ev/$(basename "$S")-$$
mkdir -p /tmp/ev
git -C /repo worktree add -q --detach "$W" HEAD || exit 2
cleanup() { git -C /repo worktree remove --force "$W" >/dev/null 2>&1; }
trap cleanup EXIT INT TERM
( cd "$W" && PYTHONPATH="$W" /venv/bin/python "$S/demo.py" >/dev/null 2>&1 ); d0=$?
( cd "$W" && git apply "$S/patch.diff" ) || { echo "[eval] patch does not apply"; exit 2; }
( cd "$W" && PYTHONPATH="$W" /venv/bin/python "$S/demo.py" >/dev/null 2>&1 ); d1=$?
t=$( cd "$W" && /venv/bin/python -m pytest -q -p no:cacheprovider -n 6 2>&1 | tail -1 )
echo "[eval] $(basename $S): demo without change exit=$d0 (want 0); with change exit=$d1 (want 1); suite with change: $t"
"$V/tools/try_seed_wt.sh" "$W" "$PID" "$TIER" > /tmp/ev/last-$(basename "$S")-$PID.log 2>&1
L=/tmp/ev/last-$(basename "$S")-$PID.log
grep -E "harness=" "$L" | cut -c1-240 | head -3
echo "[eval] $(basename $S) vs $PID: violations=$(grep -c '^VIOLATION' $L) harness_errors=$(grep -c '^HARNESS-ERROR' $L) $(grep -E 'try_seed' $L) $(grep -E "^\[$PID\]" $L | sed 's/.*wall=/wall=/')"
