#!/bin/sh
# tools/try_seed_wt.sh <worktree with the seeded change applied> <PID> [tier] [extra args]
# Trial run of a check against another checkout (does not touch /repo, /verif/evidence or /verif/replays).
V="$(cd "$(dirname "$0")/.." && pwd)"
WT="$1"; PID="$2"; TIER="${3:-quick}"; if [ $# -ge 3 ]; then shift 3; else shift 2; fi
mkdir -p /tmp/seedout/$PID
cd "$V" && VERIF_REPO="$WT" VERIF_OUT=/tmp/seedout/$PID ./vcheck "$PID" --tier "$TIER" "$@"
rc=$?
echo "[try_seed_wt] $PID exit=$rc"
exit $rc
