#!/bin/sh
# tools/recheck_seed.sh <seed dir> <PID> [tier] [extra vcheck args]   - run the check against a fresh worktree carrying the seeded change
# (no suite / demo confirmation: that is tools/eval_seed.sh)
S="$1"; PID="$2"; TIER="${3:-quick}"; if [ $# -ge 3 ]; then shift 3; else shift 2; fi
V="$(cd "$(dirname "$0")/.." && pwd)"
case "$S" in /*) ;; *) S="$(pwd)/$S";; esac
W=/tmp/ev/re-$(basename "$S")-$$
mkdir -p /tmp/ev
git -C /repo worktree add -q --detach "$W" HEAD || exit 2
trap 'git -C /repo worktree remove --force "$W" >/dev/null 2>&1' EXIT INT TERM
( cd "$W" && git apply "$S/patch.diff" ) || { echo "[recheck] patch does not apply"; exit 2; }
L=/tmp/ev/re-$(basename "$S")-$PID.log
"$V/tools/try_seed_wt.sh" "$W" "$PID" "$TIER" "$@" > "$L" 2>&1
grep -E "harness=" "$L" | cut -c1-260 | head -3
echo "[recheck] $(basename $S) vs $PID: violations=$(grep -c '^VIOLATION' $L) harness_errors=$(grep -c '^HARNESS-ERROR' $L) $(grep -E 'try_seed' $L) $(grep -E "^\[$PID\]" $L | sed 's/.*wall=/wall=/')"
