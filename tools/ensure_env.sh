#!/bin/sh
# Idempotent: build /verif/.venv (overlay of /venv + z3-solver + crosshair-tool) from files on disk only.
set -e
V="$(cd "$(dirname "$0")/.." && pwd)"
PY="$V/.venv/bin/python"
if [ -x "$PY" ] && "$PY" -c "import z3, ofxtools" >/dev/null 2>&1; then exit 0; fi
LOCK="$V/.venv.lock"
exec 9>"$LOCK"
flock 9
if [ -x "$PY" ] && "$PY" -c "import z3, ofxtools" >/dev/null 2>&1; then exit 0; fi
rm -rf "$V/.venv"
/venv/bin/python -m venv "$V/.venv"
SP="$("$PY" -c 'import sysconfig; print(sysconfig.get_paths()["purelib"])')"
printf '%s\n%s\n' "/venv/lib/python3.12/site-packages" "/repo" > "$SP/_verif_overlay.pth"
PIP_NO_INDEX=1 "$PY" -m pip install -q --no-index --find-links /opt/veriftools/wheels z3-solver >/dev/null 2>&1 || \
  PIP_NO_INDEX=1 "$PY" -m pip install --no-index --find-links /opt/veriftools/wheels z3-solver
PIP_NO_INDEX=1 "$PY" -m pip install -q --no-index --find-links /opt/veriftools/wheels crosshair-tool >/dev/null 2>&1 || true
"$PY" -c "import z3, ofxtools"
