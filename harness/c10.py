"""C10 - element type converters are mutually inverse, canonical, and strict at limits."""
import datetime, decimal, warnings
from ofxtools import Types, utils
from sx.models.dec import parts as dec_parts
from sx.run import PRINTABLE

PID = "C10"
REJECT = (ValueError, TypeError, ArithmeticError, AssertionError)
ASCII_PRINT = [(0x20, 0x7E)]


# ---------------------------------------------------------------- reference pieces (no library code)
def xml_escape(s):
    """what the XML/SGML serializer does to element data (ElementTree's cdata escaping)"""
    return s.replace("&", "&amp;").replace("<", "&lt;").replace(">", "&gt;")


def ref_unescape(ctx, s):
    """OFX character-data decoding: &amp; &lt; &gt; &nbsp; &apos; &quot;, single left-to-right pass.
    (Differs from chained replace() only where a decoded '&' would start a new entity; those inputs are excluded
    by the callers through has_double_escape.)"""
    ents = (("&amp;", "&"), ("&lt;", "<"), ("&gt;", ">"), ("&nbsp;", " "), ("&apos;", "'"), ("&quot;", '"'))
    out = ""
    i = 0
    n = len(s)
    while i < n:
        hit = False
        if s[i] == "&":
            for ent, ch in ents:
                if s[i:i + len(ent)] == ent:
                    out = out + ch
                    i += len(ent)
                    hit = True
                    break
        if not hit:
            out = out + s[i]
            i += 1
    return out


def same_dec(ctx, a, b):
    sa, ca, ea = dec_parts(a)
    sb, cb, eb = dec_parts(b)
    return ctx.all([sa == sb, ca == cb, ea == eb])


def raises(f, *a):
    try:
        f(*a)
    except REJECT:
        return True
    return False


# ---------------------------------------------------------------- Bool
def h_bool(ctx):
    req = ctx.bool("required")
    conv = Types.Bool(required=req)
    v = ctx.symbool("v")
    t = conv.unconvert(v)
    ctx.observe("text", t)
    ctx.check("Bool is written as Y or N", ctx.any([t == "Y", t == "N"]))
    ctx.check("Bool write-then-read returns the value", conv.convert(t) == v)
    ctx.check("Y reads as True and N as False", ctx.all([conv.convert("Y") is True, conv.convert("N") is False]))


def h_bool_text(ctx, n):
    req = ctx.bool("required")
    conv = Types.Bool(required=req)
    t = ctx.str("t", n, PRINTABLE)
    if t == "Y" or t == "N":
        r = conv.convert(t)
        ctx.check("accepted Bool text is canonical (a fixed point)", conv.unconvert(r) == t)
    else:
        ctx.check("text other than Y/N is not a Bool", raises(conv.convert, t))


# ---------------------------------------------------------------- None / required
def _mk(kind, req):
    if kind == "Bool":
        return Types.Bool(required=req)
    if kind == "String":
        return Types.String(3, required=req)
    if kind == "NagString":
        return Types.NagString(3, required=req)
    if kind == "OneOf":
        return Types.OneOf("A", "BC", required=req)
    if kind == "Integer":
        return Types.Integer(3, required=req)
    if kind == "Decimal":
        return Types.Decimal(2, required=req)
    if kind == "DateTime":
        return Types.DateTime(required=req)
    if kind == "Time":
        return Types.Time(required=req)
    if kind == "ListElement":
        return Types.ListElement(Types.String(3, required=req))
    raise KeyError(kind)


KINDS = ["Bool", "String", "NagString", "OneOf", "Integer", "Decimal", "DateTime", "Time", "ListElement"]


def h_none(ctx, kind):
    req = ctx.bool("required")
    conv = _mk(kind, req)
    for nm, f in (("read", conv.convert), ("written", conv.unconvert)):
        if req:
            ctx.check(f"None is rejected when {nm} (required element)", raises(f, None))
        else:
            ctx.check(f"None passes through when {nm} (optional element)", f(None) is None)
    if kind in ("String", "NagString", "OneOf", "Integer", "ListElement"):
        if req:
            ctx.check("empty text is rejected for a required element", raises(conv.convert, ""))
        else:
            ctx.check("empty text reads as None for an optional element", conv.convert("") is None)


# ---------------------------------------------------------------- String / NagString
def h_string_value(ctx, cls, length, n, history=0):
    """value of n characters: write, escape as on the wire, read back (after `history` earlier values through the same converter:
    distinct, every third one over-long)"""
    conv = getattr(Types, cls)(length)
    for i in range(history):
        hv = str(i).zfill(length or 3)                                   # distinct, within the limit
        if cls == "NagString" and i % 3 == 0:
            hv = hv + "x"                                                # over-long: warned about, kept
        with warnings.catch_warnings(record=True):
            warnings.simplefilter("always")
            conv.convert(hv)
            conv.unconvert(hv)
    v = ctx.str("v", n, PRINTABLE)
    if length is not None and n > length:
        if cls == "String":
            ctx.check("over-long String is rejected when written", raises(conv.unconvert, v))
            ctx.check("over-long String is rejected when read", raises(conv.convert, xml_escape(v)))
        else:
            with warnings.catch_warnings(record=True) as w1:
                warnings.simplefilter("always")
                t = conv.unconvert(v)
            with warnings.catch_warnings(record=True) as w2:
                warnings.simplefilter("always")
                back = conv.convert(xml_escape(v))
            ctx.check("over-long NagString is kept whole when written", t == v)
            ctx.check("over-long NagString is kept whole when read", back == v)
            ctx.check("over-long NagString warns when written and when read", len(w1) >= 1 and len(w2) >= 1)
        return
    t = conv.unconvert(v)
    ctx.check("String is written unchanged", t == v)
    back = conv.convert(xml_escape(t))
    ctx.observe("back", back)
    ctx.check("String write-escape-read returns the value", back == v)


def h_string_text(ctx, cls, length, n):
    """any text of n characters: decoding agrees with the OFX entity rules; canonical form is a fixed point"""
    conv = getattr(Types, cls)(length)
    t = ctx.str("t", n, PRINTABLE)
    want = ref_unescape(ctx, t)
    # '&amp;lt;' style texts: chained replacement in the library decodes twice; the property's rule is one pass
    twice = ref_unescape(ctx, want)
    ok = True
    res = None
    try:
        with warnings.catch_warnings(record=True) as w:
            warnings.simplefilter("always")
            res = conv.convert(t)
    except REJECT:
        ok = False
    too_long = length is not None and len(want) > length
    if cls == "String":
        if ctx.known("C10-double-unescape", twice != want):
            return
        ctx.check("String text is accepted iff its decoded length is within the limit", ok == (not too_long))
    else:
        ctx.check("NagString text is always accepted", ok)
    if ok:
        if ctx.known("C10-double-unescape", twice != want):
            return
        ctx.observe("value", res)
        ctx.check("character data is decoded by the OFX entity rules", res == want)
        c = xml_escape(conv.unconvert(res)) if not too_long else xml_escape(res)
        with warnings.catch_warnings(record=True) as w:
            warnings.simplefilter("always")
            ctx.check("canonical text reads to the same value", conv.convert(c) == res)


TOKENS_STR = ["&amp;", "&lt;", "&gt;", "&nbsp;", "&apos;", "&quot;", "&", "amp;", "lt;", "gt;", "nbsp;", "apos;", "quot;", "x", ";",
              "&#39;", "&#34;", "#39;", "&#x27;"]          # numeric character references are NOT OFX escapes: they stay literal


def h_string_tokens(ctx, cls, length, ntok):
    """text assembled from entity-sized tokens (entities, a bare '&', entity tails, plain characters): every way escapes can
    abut, overlap or nest - e.g. '&amp;' followed by 'quot;' must decode to '&quot;', never to '"'"""
    conv = getattr(Types, cls)(length)
    t = ""
    for i in range(ntok):
        t = t + ctx.choice(f"tok{i}", TOKENS_STR)
    want = ref_unescape(ctx, t)
    too_long = length is not None and len(want) > length
    ok = True
    res = None
    try:
        with warnings.catch_warnings(record=True) as w:
            warnings.simplefilter("always")
            res = conv.convert(t)
    except REJECT:
        ok = False
    if cls == "String":
        ctx.check("String text is accepted iff its decoded length is within the limit", ok == (not too_long))
    if ok:
        ctx.check("character data is decoded by the OFX entity rules (one left-to-right pass)", res == want)
        ctx.check("decoding then re-escaping is stable", conv.convert(xml_escape(res)) == res if (cls != "String" or not too_long) else True)


# ---------------------------------------------------------------- OneOf
TOKENS = {"two": ("A", "BC"), "five": ("CHECKING", "SAVINGS", "MONEYMRKT", "CREDITLINE", "CD"), "yn": ("Y", "N", "YES")}


def h_oneof(ctx, toks, n):
    tokens = TOKENS[toks]
    conv = Types.OneOf(*tokens)
    v = ctx.enum("v", list(tokens))
    t = conv.unconvert(v)
    ctx.check("enumeration token is written unchanged", t == v)
    ctx.check("enumeration write-then-read returns the token", conv.convert(t) == v)
    x = ctx.str("x", n, ASCII_PRINT)
    member = ctx.any([x == k for k in tokens])
    if member:
        ctx.check("declared token is accepted", conv.convert(x) == x)
    else:
        ctx.check("text outside the enumeration is rejected when read", raises(conv.convert, x))
        ctx.check("value outside the enumeration is rejected when written", raises(conv.unconvert, x))


# ---------------------------------------------------------------- Integer
def h_int_value(ctx, length):
    conv = Types.Integer(length)
    lim = 10 ** ((length or 6) + 1)
    v = ctx.int("v", -lim, lim)
    if length is not None and v >= 10 ** length:
        ctx.check("integer with too many digits is rejected when written", raises(conv.unconvert, v))
        ctx.check("integer with too many digits is rejected when assigned", raises(conv.convert, v))
        return
    t = conv.unconvert(v)
    ctx.observe("text", t)
    ctx.check("Integer write-then-read returns the value", conv.convert(t) == v)
    ctx.check("Integer text is canonical (writing the read value gives the same text)", conv.unconvert(conv.convert(t)) == t)


def h_int_text(ctx, length, n, signed):
    """digit strings (optionally signed) of n digits; n may exceed the limit"""
    conv = Types.Integer(length)
    sign = ctx.choice("sign", ["", "+", "-"]) if signed else ""
    d = ctx.str("d", n, "0-9")
    t = sign + d
    val = int(d)
    if sign == "-":
        val = -val
    over = length is not None and val >= 10 ** length
    if over:
        ctx.check("integer text beyond the digit limit is rejected", raises(conv.convert, t))
        return
    r = conv.convert(t)
    ctx.check("integer text reads as its decimal value", r == val)
    c = conv.unconvert(r)
    ctx.check("canonical integer text reads to the same value", conv.convert(c) == r)
    ctx.check("canonical integer text is a fixed point", conv.unconvert(conv.convert(c)) == c)


def h_int_badtext(ctx, n):
    """a letter or punctuation mark anywhere in the text: never an integer"""
    conv = Types.Integer(None)
    d = ctx.str("d", n, "0-9")
    pos = ctx.choice("pos", list(range(n)))
    c = ctx.str("c", 1, [(0x21, 0x2A), (0x2C, 0x2C), (0x2E, 0x2F), (0x3A, 0x5E), (0x60, 0x7E)])   # printable, not digit + - _ space
    t = d[:pos] + c + d[pos + 1:]
    ctx.check("text with a non-digit is not an integer", raises(conv.convert, t))


# ---------------------------------------------------------------- Decimal
def ref_quantize(ctx, coef, exp, qexp):
    """half-even rounding of coef*10^exp to exponent qexp (integers only)"""
    if exp >= qexp:
        return coef * 10 ** (exp - qexp)
    p = 10 ** (qexp - exp)
    q = coef // p
    r = coef - q * p
    half = p // 2
    up = ctx.any([r > half, ctx.all([r == half, q % 2 == 1])])
    return q + ctx.ite(up, 1, 0)


def h_dec_value(ctx, scale, exp):
    conv = Types.Decimal(scale)
    v = ctx.decimal("v", 99999, exp)
    if scale is not None and exp != -scale:
        ctx.check("Decimal not matching the declared scale is rejected when written", raises(conv.unconvert, v))
        q = conv.convert(v)
        sv, cv, ev = dec_parts(v)
        sq, cq, eq = dec_parts(q)
        ctx.check("assigning a Decimal quantizes it half-even to the declared scale",
                  ctx.all([eq == -scale, cq == ref_quantize(ctx, cv, ev, -scale), sq == sv]))
        return
    t = conv.unconvert(v)
    ctx.observe("text", t)
    back = conv.convert(t)
    ctx.observe("back", back)
    ctx.check("Decimal write-then-read returns the same number", back == v)
    if exp <= 0:
        ctx.check("Decimal write-then-read keeps the exponent (number of decimal places)", same_dec(ctx, back, v))
    ctx.check("written Decimal is canonical", conv.unconvert(back) == t)


def h_dec_text(ctx, scale, ni, nf, sep, signed):
    """sign? + ni integer digits + [sep + nf fraction digits]"""
    conv = Types.Decimal(scale)
    sign = ctx.choice("sign", ["", "+", "-"]) if signed else ""
    di = ctx.str("i", ni, "0-9")
    t = sign + di
    coef = int(di) if ni else 0
    if nf:
        df = ctx.str("f", nf, "0-9")
        t = t + sep + df
        coef = coef * 10 ** nf + int(df)
    r = conv.convert(t)
    ctx.observe("value", r)
    sr, cr, er = dec_parts(r)
    if scale is None:
        want_c, want_e = coef, -nf
    else:
        want_c, want_e = ref_quantize(ctx, coef, -nf, -scale), -scale
    ctx.check("decimal text reads as the number it denotes (both separators, sign, scale quantum)",
              ctx.all([cr == want_c, er == want_e, sr == (1 if sign == "-" else 0)]))
    c = conv.unconvert(r)
    back = conv.convert(c)
    ctx.check("canonical decimal text reads to the same value", same_dec(ctx, back, r))
    ctx.check("canonical decimal text is a fixed point", conv.unconvert(back) == c)


def h_dec_long(ctx, scale, ni, nf):
    """amounts with more significant digits than the default decimal context holds (OFX allows 32 characters): nothing
    may be rounded on the way in or out"""
    conv = Types.Decimal(scale)
    neg = ctx.bool("neg")
    di = ctx.str("i", ni, "0-9")
    df = ctx.str("f", nf, "0-9")
    ctx.assume(di[0] != "0")
    t = ("-" if neg else "") + di + "." + df
    r = conv.convert(t)
    sr, cr, er = dec_parts(r)
    ctx.check("a long decimal text reads exactly (no rounding to a context precision)",
              ctx.all([cr == int(di) * 10 ** nf + int(df), er == -nf, sr == (1 if neg else 0)]))
    c = conv.unconvert(r)
    ctx.check("a long decimal is written exactly", c == t)


def h_dec_badtext(ctx, n):
    conv = Types.Decimal(None)
    d = ctx.str("d", n, "0-9")
    pos = ctx.choice("pos", list(range(n)))
    # letters except those Python's Decimal gives a meaning (exponent marker, Inf/NaN spellings) - see observations
    c = ctx.str("c", 1, [(0x21, 0x2A), (0x2F, 0x2F), (0x3A, 0x40), (0x42, 0x44), (0x47, 0x48), (0x4A, 0x4D), (0x4F, 0x52),
                         (0x55, 0x58), (0x5A, 0x5A), (0x62, 0x64), (0x67, 0x68), (0x6A, 0x6D), (0x6F, 0x72), (0x75, 0x78), (0x7A, 0x7A)])
    t = d[:pos] + c + d[pos + 1:]
    ctx.check("text with a letter or punctuation mark is not a decimal", raises(conv.convert, t))


# ---------------------------------------------------------------- ListElement
def h_listelement(ctx, n):
    inner = Types.String(2)
    conv = Types.ListElement(inner)
    v = ctx.str("v", n, PRINTABLE)
    if n > 2:
        ctx.check("ListElement enforces its converter's limit when written", raises(conv.unconvert, v))
        ctx.check("ListElement enforces its converter's limit when read", raises(conv.convert, xml_escape(v)))
        return
    ctx.check("ListElement writes like its converter", conv.unconvert(v) == inner.unconvert(v))
    ctx.check("ListElement write-escape-read returns the value", conv.convert(xml_escape(conv.unconvert(v))) == v)


# ---------------------------------------------------------------- wrong Python types (finite side condition)
def _wrong(kind):
    naive = datetime.datetime(2020, 1, 2, 3, 4, 5)
    aware = naive.replace(tzinfo=utils.UTC)
    pool = [1, 1.5, "x", b"x", True, decimal.Decimal("1.5"), naive, aware, [1], datetime.date(2020, 1, 1), naive.time(), aware.timetz()]
    ok = {
        "Bool": (bool,), "String": (str,), "NagString": (str,), "OneOf": (str,), "Integer": (int,), "Decimal": (decimal.Decimal,),
        "DateTime": (datetime.datetime,), "Time": (datetime.time,), "ListElement": (str,),
    }[kind]
    out = []
    for v in pool:
        if isinstance(v, ok):
            if v is naive or (kind == "Time" and v.tzinfo is None):
                out.append(v)      # naive date/time values are wrong-typed for our purposes
            continue
        if kind == "OneOf" and v == "x":
            continue
        out.append(v)
    return out


def h_wrongtype(ctx, kind):
    conv = _mk(kind, False)
    vals = _wrong(kind)
    k = ctx.choice("k", list(range(len(vals))))
    v = vals[k]
    ctx.check(f"{kind}: value of the wrong Python type is rejected when written", raises(conv.unconvert, v))


from harness import c09 as _c09

HARNESSES = dict(dt_write=_c09.h_write, dt_read=_c09.h_read, dt_naive=_c09.h_write_naive, dt_roundtrip=_c09.h_roundtrip, bool=h_bool, bool_text=h_bool_text, none=h_none, string_value=h_string_value, string_text=h_string_text, string_tokens=h_string_tokens,
                 oneof=h_oneof, int_value=h_int_value, int_text=h_int_text, int_badtext=h_int_badtext, dec_value=h_dec_value,
                 dec_text=h_dec_text, dec_long=h_dec_long, dec_badtext=h_dec_badtext, listelement=h_listelement, wrongtype=h_wrongtype)

META = dict(
    bounds=dict(strings="length <= limit+1 (limits None,1,2,3; None uses lengths 1-3) over the printable alphabet of DESIGN section 3",
                integers="|v| <= 10^(n+1), n in {None,1,2,3}; texts of 1..n+1 digits with optional sign",
                decimals="coefficient < 10^5, exponent -6..+3; texts of <= 3+3 digits with '.' or ','; scale None,1,2,3",
                enumerations="three token sets; foreign texts up to the longest token + 1"),
    models=["xml.sax.saxutils.unescape (instrumented source)", "str.replace", "int()/str()", "decimal.Decimal (text, quantize, same_quantum, str)",
            "functools.singledispatchmethod dispatch on the symbolic value's type", "warnings.warn (recorded)"],
    assumptions=["wire escaping of character data = ElementTree cdata escaping (& < >)", "date-time / time value spaces are C09's harnesses"],
    observations=["int()/Decimal() additionally accept surrounding blanks, '_' digit grouping and non-ASCII digits; Decimal() accepts exponent, Infinity and NaN spellings - tolerated extras, not obligations",
                  "negative integers are not limited in digits (enforce_length tests value >= 10**length only)"],
)


def instances(tier, seed):
    out = []
    full = tier != "quick"

    def mk(name, h, params, **opts):
        opts.setdefault("wall_s", 300 if not full else 900)
        out.append(dict(name=name, harness=h, fn=HARNESSES[h], params=params, opts=opts))
    mk("bool", "bool", {})
    for n in (0, 1, 2):
        mk(f"bool_text[{n}]", "bool_text", dict(n=n))
    for k in KINDS:
        mk(f"none[{k}]", "none", dict(kind=k))
        mk(f"wrongtype[{k}]", "wrongtype", dict(kind=k))
    lens = [None, 1, 3] if not full else [None, 1, 2, 3]
    for cls in ("String", "NagString"):
        for L in lens:
            hi = (L + 1) if L is not None else 3
            for n in range(1, hi + 1):
                mk(f"string_value[{cls},{L},{n}]", "string_value", dict(cls=cls, length=L, n=n))
    # the same after a long history through one converter object (300 earlier values, 100 of them over-long for the nagging type)
    for cls, L, n in (("String", 3, 4), ("String", 3, 3), ("NagString", 3, 4)):
        mk(f"string_value[{cls},{L},{n},history=300]", "string_value", dict(cls=cls, length=L, n=n, history=300))
    # entity decoding needs room for an entity: texts up to 6 (quick) / 7 (thorough) characters
    for cls, L in (("String", None), ("String", 3), ("NagString", 2)) if not full else (("String", None), ("String", 1), ("String", 3), ("NagString", 2)):
        for n in range(1, (6 if not full else 7) + 1):
            mk(f"string_text[{cls},{L},{n}]", "string_text", dict(cls=cls, length=L, n=n), wall_s=600 if not full else 1800, max_paths=200000)
    for cls, L in (("String", None), ("String", 6), ("NagString", 3)):
        for ntok in ((1, 2) if not full else (1, 2, 3)):
            mk(f"string_tokens[{cls},{L},{ntok}]", "string_tokens", dict(cls=cls, length=L, ntok=ntok), max_paths=20000)
    for toks in TOKENS:
        mx = max(len(t) for t in TOKENS[toks])
        for n in sorted(set([1, 2, mx, mx + 1])) if full else sorted(set([1, 2, min(mx, 3)])):
            mk(f"oneof[{toks},{n}]", "oneof", dict(toks=toks, n=n))
    for L in lens:
        mk(f"int_value[{L}]", "int_value", dict(length=L))
        for n in range(1, ((L or 3) + 1) + 1):
            mk(f"int_text[{L},{n}]", "int_text", dict(length=L, n=n, signed=True))
    for n in (1, 2, 4):
        mk(f"int_badtext[{n}]", "int_badtext", dict(n=n))
    scales = [None, 2] if not full else [None, 1, 2, 3]
    for sc in scales:
        for exp in range(-6, 4):
            mk(f"dec_value[{sc},{exp}]", "dec_value", dict(scale=sc, exp=exp))
        for ni, nf in ((1, 0), (3, 0), (0, 2), (1, 1), (2, 2), (3, 3), (1, 3)):
            for sep in (".", ","):
                if nf == 0 and sep == ",":
                    continue
                mk(f"dec_text[{sc},{ni},{nf},{sep}]", "dec_text", dict(scale=sc, ni=ni, nf=nf, sep=sep, signed=True))
    for n in (1, 3):
        mk(f"dec_badtext[{n}]", "dec_badtext", dict(n=n))
    mk("dec_long[None,28,2]", "dec_long", dict(scale=None, ni=28, nf=2), timeout_ms=30000)
    mk("dec_long[2,26,2]", "dec_long", dict(scale=2, ni=26, nf=2), timeout_ms=30000)
    for n in (1, 2, 3):
        mk(f"listelement[{n}]", "listelement", dict(n=n))
    # date-time and time: the value spaces of C09 (writer over all instants x offsets; reader on the shapes the writer emits)
    for kind in ("dt", "time"):
        for named in ((None, 2) if not full else (None, 0, 1, 3)):
            mk(f"dt_write[{kind},name={named}]", "dt_write", dict(kind=kind, named=named), timeout_ms=30000)
        mk(f"dt_naive[{kind}]", "dt_naive", dict(kind=kind))
        for off in (["+", 1, False, None], ["-", 2, True, None], ["-", 1, True, 2], ["+", 2, True, 0]):
            mk(f"dt_read[{kind},{off}]", "dt_read", dict(kind=kind, has_time=True, has_ms=True, off=off), timeout_ms=20000)
    return out
