"""C05 - the header parser hands over exactly the body, decoded as the header declares."""
from ofxtools import header as H
from ofxtools.header import parse_header, OFXHeaderV1, OFXHeaderV2
from sx.models.io import make_source

PID = "C05"
UIDCH = "A-Za-z0-9_\\-"
SEPS = {"CRLF": "\r\n", "LF": "\n", "CR": "\r", "NONE": ""}
GAPS = {"none": "", "LF": "\n", "CRLF": "\r\n", "CRLFCRLF": "\r\n\r\n", "space": " ", "LFLF": "\n\n"}
CHARSETS = {"ISO-8859-1": "latin_1", "1252": "cp1252", "NONE": "utf_8"}


def body_alphabet(codec, full=True):
    """characters encodable in the codec that the body may contain (printable + CR/LF; cp1252's own characters;
    2- and 3-byte UTF-8 characters)"""
    if codec == "latin_1":
        return [(0x0A, 0x0A), (0x0D, 0x0D), (0x20, 0x7E), (0xA0, 0xFF)]
    if codec == "cp1252" and not full:
        return [(0x0A, 0x0A), (0x0D, 0x0D), (0x20, 0x7E), (0xA0, 0xFF), (0x152, 0x152), (0x2013, 0x2013), (0x20AC, 0x20AC)]
    if codec == "cp1252":
        return [(0x0A, 0x0A), (0x0D, 0x0D), (0x20, 0x7E), (0xA0, 0xFF), (0x152, 0x153), (0x160, 0x161), (0x178, 0x178), (0x17D, 0x17E),
                (0x192, 0x192), (0x2C6, 0x2C6), (0x2DC, 0x2DC), (0x2013, 0x2014), (0x2018, 0x201A), (0x201C, 0x201E), (0x2020, 0x2022),
                (0x2026, 0x2026), (0x2030, 0x2030), (0x2039, 0x203A), (0x20AC, 0x20AC), (0x2122, 0x2122)]
    return [(0x0A, 0x0A), (0x0D, 0x0D), (0x20, 0x7E), (0xA0, 0xFF), (0x100, 0x100), (0x20AC, 0x20AC), (0x4E2D, 0x4E2D)]


def mk_body(ctx, codec, nbody):
    n = ctx.choice("nbody", list(range(0, nbody + 1)))
    inner = ctx.str("b", n, body_alphabet(codec, nbody > 1)) if n else ""
    return "<" + inner + ">"


def h_v1(ctx, charset, sepA, sepB, gap, nbody, lead, blanks):
    codec = CHARSETS[charset]
    vd = ctx.str("ver", 2, "0-9")
    version = "1" + vd
    security = ctx.choice("security", ["NONE", "TYPE1"])
    encoding = ctx.choice("encoding", ["USASCII", "UNICODE", "UTF-8"] if nbody > 1 else ["USASCII", "UTF-8"])
    old = ctx.str("old", 1, UIDCH)
    new = ctx.strlen("new", 1, 2, UIDCH)
    fields = [("OFXHEADER", "100"), ("DATA", "OFXSGML"), ("VERSION", version), ("SECURITY", security), ("ENCODING", encoding),
              ("CHARSET", charset), ("COMPRESSION", "NONE"), ("OLDFILEUID", old), ("NEWFILEUID", new)]
    # separators: kind A after every field, kind B at one symbolic position (if sepB differs)
    odd = ctx.choice("odd", list(range(8))) if sepB != sepA else -1
    blank_at = ctx.choice("blank_at", list(range(9))) if blanks else -1
    head = ""
    i = 0
    for k, v in fields:
        head = head + k + ":" + (" " if i == blank_at else "") + v
        if i < 8:
            head = head + SEPS[sepB if i == odd else sepA]
        i += 1
    leading = ctx.choice("lead", ["", "\r\n", "\n\n", "\r\r", "  ", "\n \n"] if lead == "all" else ["", "\r\n"]) if lead else ""
    body = mk_body(ctx, codec, nbody)
    data = (leading + head + GAPS[gap]).encode("ascii") + body.encode(codec)
    ctx.observe("file", data)
    # fields separated by nothing at all are only unambiguous when the values cannot run into the next name;
    # the tolerated one-line layout is what some banks send, with the values it has here
    if ctx.known("C05-ascii-scan-of-body-bytes", ctx.any([ord(c) >= 128 for c in body])):
        return
    # a preceding file with byte-identical header lines whose body does not decode in the declared charset
    junk = {"latin_1": b"<\xa0>", "cp1252": b"<\x81\x8d>", "utf_8": b"<\xe9\xff>"}[codec]
    try:
        parse_header(make_source((leading + head + GAPS[gap]).encode("ascii") + junk))
    except (UnicodeDecodeError, SyntaxError):
        pass
    hdr, text = parse_header(make_source(data))
    ctx.check("the v1 header class is returned", type(hdr) is OFXHeaderV1)
    ctx.check("header fields equal those in the file",
              ctx.all([hdr.version == int(version), hdr.security == security, hdr.encoding == encoding, hdr.charset == charset,
                       hdr.oldfileuid == old, hdr.newfileuid == new, hdr.ofxheader == 100, hdr.data == "OFXSGML", hdr.compression == "NONE"]))
    ctx.check("the body is handed over exactly: first '<' to last '>', decoded with the declared character set", text == body)


XML1 = {'"': '<?xml version="1.0" encoding="UTF-8" standalone="no"?>', "'": "<?xml version='1.0' encoding='UTF-8' standalone='no'?>",
        "n": '<?xml version="1.0" standalone="no"?>'}


def h_v2(ctx, q1, q2, br1, br2, nbody, lead=True):
    version = ctx.choice("version", ["200", "201", "202", "203", "210", "211", "220"] if nbody > 1 else ["200", "211", "220"])
    security = ctx.choice("security", ["NONE", "TYPE1"])
    old = ctx.str("old", 1, UIDCH)
    new = ctx.strlen("new", 1, 2, UIDCH)
    q = q2
    decl = "<?OFX OFXHEADER=" + q + "200" + q + " VERSION=" + q + version + q + " SECURITY=" + q + security + q + \
           " OLDFILEUID=" + q + old + q + " NEWFILEUID=" + q + new + q + "?>"
    body = mk_body(ctx, "utf_8", nbody)
    leading = ctx.choice("lead", ["", "\r\n", "\n\n"]) if lead else ""
    text_all = leading + XML1[q1] + br1 + decl + br2 + body
    data = text_all.encode("utf_8")
    ctx.observe("file", data)
    if q2 == "'" and ctx.known("C05-v2-single-quotes-refused"):
        return
    if br1 == "" and ctx.known("C05-ascii-scan-of-body-bytes", ctx.any([ord(c) >= 128 for c in body])):
        return
    # a preceding OFXv2 file that declares another encoding in its XML declaration
    try:
        parse_header(make_source(b'<?xml version="1.0" encoding="ISO-8859-1"?>\r\n<?OFX OFXHEADER="200" VERSION="203" SECURITY="NONE" OLDFILEUID="NONE" NEWFILEUID="NONE"?>\r\n<OFX>\xe9</OFX>'))
    except (UnicodeDecodeError, SyntaxError):
        pass
    hdr, text = parse_header(make_source(data))
    ctx.check("the v2 header class is returned", type(hdr) is OFXHeaderV2)
    ctx.check("header fields equal those in the file",
              ctx.all([hdr.version == int(version), hdr.security == security, hdr.oldfileuid == old, hdr.newfileuid == new, hdr.ofxheader == 200]))
    ctx.check("the body is handed over exactly: first '<' to last '>', decoded as UTF-8", text == body)


def h_long(ctx, major, total):
    """files of several kilobytes: a symbolic non-ASCII character (2-3 bytes in UTF-8) placed so that it straddles or touches a
    power-of-two offset (4096, 8192, 16384 - where block-wise readers cut), counted from the start of the file or of the body"""
    if major == 1:
        head = "OFXHEADER:100\r\nDATA:OFXSGML\r\nVERSION:102\r\nSECURITY:NONE\r\nENCODING:UTF-8\r\nCHARSET:NONE\r\nCOMPRESSION:NONE\r\nOLDFILEUID:NONE\r\nNEWFILEUID:NONE\r\n\r\n"
    else:
        head = XML1['"'] + "\r\n" + '<?OFX OFXHEADER="200" VERSION="203" SECURITY="NONE" OLDFILEUID="NONE" NEWFILEUID="NONE"?>' + "\r\n"
    boundary = ctx.choice("boundary", [4096, 8192, 16384] if total > 16384 else [4096, 8192])
    origin = ctx.choice("counted_from", ["file", "body"])
    shift = ctx.choice("shift", [-2, -1, 0])                  # first byte of the character relative to the boundary
    ch = ctx.str("ch", 1, [(0xA1, 0xFF), (0x20AC, 0x20AC), (0x4E2D, 0x4E2D)])
    start = "<OFX><MEMO>"
    at = boundary + shift - (len(head) if origin == "file" else 0) - len(start)        # characters of filler before the symbolic one
    line = "Lorem ipsum dolor sit amet 0123456789\r\n"
    filler = (line * (at // len(line) + 1))[:at]
    tail_len = total - boundary - 64
    body = start + filler + ch + (line * (tail_len // len(line) + 1))[:tail_len] + "</MEMO></OFX>"
    data = head.encode("ascii") + body.encode("utf_8")
    hdr, text = parse_header(make_source(data))
    ctx.check("the body is handed over exactly: first '<' to last '>', decoded with the declared character set", text == body)


HARNESSES = dict(v1=h_v1, v2=h_v2, long=h_long)

META = dict(
    bounds=dict(v1="VERSION 1dd (digits symbolic), SECURITY/ENCODING symbolic tokens, UIDs 1-2 symbolic characters; separator kind A after every "
                   "field and kind B at one symbolic position (all 4x4 pairs in thorough); one optional blank after a symbolic colon; leading blank "
                   "lines; 6 header/body gaps; body '<' + 0..2 (quick) / 0..3 (thorough) symbolic characters + '>' over everything encodable in the declared charset incl. CR/LF",
                v2="quote style of each declaration, line break or none after each declaration, same body space in UTF-8"),
    models=["io.BytesIO (tell/readline/seek/read)", "bytes.decode / str.encode for ascii, latin_1, cp1252 (table read from the real codec), utf_8 (decoding: all sequence lengths; encoding: <= 3-byte characters)",
            "re on OFXHeaderV1/V2.regex and XML_REGEX", "str.strip"],
    assumptions=["oracle = the harness's own knowledge of the fields and body it assembled"],
    observations=["an OFXv2 file preceded by CR-only blank lines is refused (the XML declaration is then not at the start of the first line); "
                  "the property lists leading blank lines for the v1 layout only, so this is not asserted"],
)


def instances(tier, seed):
    long_instances = [dict(name=f"long[v{major},{total}]", harness="long", fn=h_long, params=dict(major=major, total=total), opts=dict(wall_s=600, max_paths=2000))
                      for major in (1, 2) for total in ((9000,) if tier == "quick" else (9000, 20000))]
    return _instances(tier, seed) + long_instances


def _instances(tier, seed):
    import random
    rnd = random.Random(seed)
    out = []
    full = tier != "quick"

    def mk(name, h, params, **opts):
        opts.setdefault("wall_s", 300 if not full else 1200)
        opts.setdefault("max_paths", 100000)
        out.append(dict(name=name, harness=h, fn=HARNESSES[h], params=params, opts=opts))
    nb = 1 if not full else 2
    for cs in CHARSETS:
        for sa in SEPS:
            sbs = list(SEPS) if full else [sa, rnd.choice([s for s in SEPS if s != sa])]
            for sb in sbs:
                gaps = list(GAPS) if full else (["none", "CRLFCRLF"] + [rnd.choice(["LF", "CRLF", "space", "LFLF"])])
                for g in gaps:
                    if sa == "NONE" and sb == "NONE" and g == "none":
                        pass
                    mk(f"v1[{cs},{sa},{sb},{g}]", "v1", dict(charset=cs, sepA=sa, sepB=sb, gap=g, nbody=nb, lead=("all" if (full or (g == gaps[0] and sb == sa)) else False), blanks=full or (sb == sa and g != gaps[0])))
    # bodies of up to 3 characters in ISO-8859-1 (thorough: also 2 in Windows-1252, whose table makes every character fork) in every declared character set, with every ENCODING token: in a single-byte character set
    # two or three characters may happen to form a valid UTF-8 sequence (the text 'Ã©'); they are still what the charset says
    mk("v1[ISO-8859-1,CRLF,CRLF,CRLFCRLF,body<=3]", "v1", dict(charset="ISO-8859-1", sepA="CRLF", sepB="CRLF", gap="CRLFCRLF", nbody=3, lead=False, blanks=False))
    if full:
        mk("v1[1252,CRLF,CRLF,CRLFCRLF,body<=2]", "v1", dict(charset="1252", sepA="CRLF", sepB="CRLF", gap="CRLFCRLF", nbody=2, lead=False, blanks=False), wall_s=1500)
    for q1 in ('"', "'", "n"):
        for q2 in ('"', "'"):
            if q1 == "n" and q2 == "'":
                continue
            for br1 in ("\r\n", "\n", ""):
                for br2 in ("\r\n", "\n", ""):
                    if not full and (br1, br2) not in (("\r\n", "\r\n"), ("", ""), ("\n", ""), ("", "\n")):
                        continue
                    mk(f"v2[{q1}{q2},{br1!r},{br2!r}]", "v2", dict(q1=q1, q2=q2, br1=br1, br2=br2, nbody=nb))
    return out
