"""C03 - every data element reaches the model with the value its OFX data type assigns."""
import datetime, decimal, warnings
import xml.etree.ElementTree as ET
from ofxtools import Types, utils
from ofxtools.models.base import Aggregate
from sx.models.dec import parts as dec_parts
import ofxgen
from harness.common import try_convert, same_value, same_model, NOWS
from harness import c09, c10

PID = "C03"
NOAMP = [(0x21, 0x25), (0x27, 0x7E), (0xA1, 0xFF), (0x100, 0x100), (0x20AC, 0x20AC), (0x4E2D, 0x4E2D)]   # printable, no blank, no '&' (raw '&' is C10's subject)
ENTS = ["&amp;", "&lt;", "&gt;", "&nbsp;", "&apos;", "&quot;"]
ENTVAL = {"&amp;": "&", "&lt;": "<", "&gt;": ">", "&nbsp;": " ", "&apos;": "'", "&quot;": '"'}


def elements_of(K):
    return [(a, c) for a, c in K.spec_no_listaggregates.items()
            if isinstance(c, Types.Element) and not isinstance(c, Types.SubAggregate)]


def rich_instance(K, target):
    """a valid instance holding `target` (native search)"""
    found = ofxgen.kwargs_with(K, target)
    if found is None:
        return None
    args, kw = found
    return ofxgen.build(K, args, kw)


QUICK = [True]
SNAP_TOKENS = [None]      # tokens of the element under test from spec_enums.json (an oracle that is not the code under check)
_SNAP = []


def snapshot():
    if not _SNAP:
        import json, os
        _SNAP.append(json.load(open(os.path.join(os.path.dirname(os.path.dirname(os.path.abspath(__file__))), "spec_enums.json"))))
    return _SNAP[0]


def snapshot_tokens(cls, attr):
    d = snapshot()
    sid = d["attrs"].get(cls + "." + attr)
    return list(d["sets"][sid]) if sid else None


def lexical(ctx, conv):
    """(symbolic text, reference value checker) for converter conv: text ranges over the type's lexical space"""
    if isinstance(conv, Types.Bool):
        t = ctx.enum("t", ["Y", "N"])
        return t, ("bool", t == "Y")
    if isinstance(conv, Types.OneOf):
        toks = SNAP_TOKENS[0] or [v for v in conv.valid]
        t = ctx.enum("t", toks)
        return t, ("same", t)
    if isinstance(conv, Types.Integer):
        nd = ctx.choice("nd", list(range(1, min(conv.length or 4, 4) + 1)))
        sign = ctx.choice("sign", ["", "+", "-"])
        d = ctx.str("d", nd, "0-9")
        v = int(d)
        if sign == "-":
            v = -v
        return sign + d, ("int", v)
    if isinstance(conv, Types.Decimal):
        shape = ctx.choice("shape", [(2, 2, "."), (1, 2, ","), (1, 0, ""), (27, 3, "."), (1, 3, ","), (3, 3, ",")] if QUICK[0] else
                           [(1, 0, ""), (2, 2, "."), (1, 2, ","), (0, 2, "."), (3, 1, ","), (27, 3, "."), (30, 2, ","),
                            # texts that look like digit grouping (1,234 / 999,875 / 12.500 / 1,234567): the separator is a decimal point all the same
                            (1, 3, ","), (2, 3, ","), (3, 3, ","), (1, 3, "."), (3, 3, "."), (1, 6, ",")])
        ni, nf, sep = shape
        sign = ctx.choice("sign", ["", "+", "-"])
        di = ctx.str("i", ni, "0-9") if ni else ""
        coef = int(di) if ni else 0
        t = sign + di
        if nf:
            df = ctx.str("f", nf, "0-9")
            t = t + sep + df
            coef = coef * 10 ** nf + int(df)
        if conv.scale is None:
            wc, we = coef, -nf
        else:
            qe = conv.scale.as_tuple().exponent
            wc, we = c10.ref_quantize(ctx, coef, -nf, qe), qe
        return t, ("dec", (1 if sign == "-" else 0, wc, we))
    if isinstance(conv, Types.String):
        L = conv.length if conv.length is not None else 8
        # plain characters, optionally one entity escape at a symbolic position
        n = ctx.choice("n", [min(L, 2)] if QUICK[0] else list(range(1, min(L, 3) + 1)))
        s = ctx.str("s", n, NOAMP)
        full_len = 300 if conv.length is None else conv.length
        if full_len >= 12 and ctx.bool("full_length"):
            # text of the full declared length (300 where undeclared): symbolic first and last characters around a filler
            filler = ("The quick brown fox jumps over the lazy dog 0123456789 " * 8)[:full_len - n]
            t = s[:1] + filler + s[1:]
            return t, ("str", t)
        use_ent = (L > n) and ctx.bool("ent")
        if use_ent:
            e = ctx.choice("e", ENTS)
            p = ctx.choice("p", list(range(n + 1)))
            t = s[:p] + e + s[p:]
            # an escaped ampersand directly followed by an entity tail must stay literal ('&amp;quot;' is the text '&quot;')
            if e == "&amp;" and L >= n + 10 and ctx.bool("tail"):
                t = t[:p + len(e)] + ctx.choice("tl", ["quot;", "lt;"]) + t[p + len(e):]
        else:
            t = s
        return t, ("str", c10.ref_unescape(ctx, t))
    if isinstance(conv, Types.Time):
        shape = ctx.choice("shape", [("time", True, False, None), ("time", True, True, ("-", 2, True, None))] + ([] if QUICK[0] else [("time", True, True, ("+", 1, False, 1))]))
        text, F, offmin, lay = c09.build_text(ctx, *shape)
        c09.assume_valid(ctx, shape[0], F, shape[3], offmin)
        want = ((F["H"] * 60 + F["M"]) * 60 + F["S"]) * c09.US + F["ms"] * 1000 - offmin * 60 * c09.US
        return text, ("time", ctx.floormod(want, c09.DAY_US))
    if isinstance(conv, Types.DateTime):
        shape = ctx.choice("shape", [("dt", False, False, None), ("dt", True, True, ("-", 2, True, None))] + ([] if QUICK[0] else
                                    [("dt", True, False, None), ("dt", True, False, ("", 1, False, None)), ("dt", True, True, ("+", 1, False, 1))]))
        text, F, offmin, lay = c09.build_text(ctx, *shape)
        c09.assume_valid(ctx, shape[0], F, shape[3], offmin)
        want = c09.ref_epoch_us(ctx, F["y"], F["mo"], F["d"], F["H"], F["M"], F["S"], F["ms"]) - offmin * 60 * c09.US
        return text, ("dt", want)
    raise TypeError(repr(conv))


def value_ok(ctx, got, ref):
    kind, want = ref
    if kind == "bool":
        return ctx.all([type(got) is bool, got == want])
    if kind == "same":
        return ctx.all([type(got) is str, got == want])
    if kind == "int":
        return ctx.all([type(got) is int, got == want])
    if kind == "str":
        return ctx.all([type(got) is str, got == want])
    if kind == "dec":
        if type(got) is not decimal.Decimal:
            return False
        s, c, e = dec_parts(got)
        return ctx.all([s == want[0], c == want[1], e == want[2]]) if True else False
    if kind == "dt":
        if type(got) is not datetime.datetime:
            return False
        return ctx.all([got.utcoffset() == datetime.timedelta(0), c09.inst_us(got) == want])
    if kind == "time":
        if type(got) is not datetime.time:
            return False
        return ctx.all([got.utcoffset() == datetime.timedelta(0), c09.tod_us(got) == want])
    return False


def pick_elements(K, full, seed):
    """quick: one element per converter kind (seed-rotated) ; thorough: all"""
    import random
    els = elements_of(K)
    if full:
        return [a for a, _ in els]
    rnd = random.Random(seed * 7919 + len(K.__name__))
    rnd.shuffle(els)
    seen, out = set(), []
    for a, c in els:
        k = (type(c).__name__, getattr(c, "scale", None) is None)
        if k not in seen:
            seen.add(k)
            out.append(a)
    return sorted(out)


def h_element(ctx, cls, attrs, quick=True):
    """one data element of K's document carries a symbolic text from its type's lexical space"""
    QUICK[0] = quick
    K = ofxgen.class_by_name(cls)
    els = [(a, K.spec[a]) for a in attrs]
    attr, conv = els[ctx.choice("attr", list(range(len(els))))]
    base = rich_instance(K, attr)
    tree = base.to_etree()
    node = None
    for ch in tree:
        if ch.tag == ofxgen.wire_tag(K, attr):
            node = ch
    SNAP_TOKENS[0] = snapshot_tokens(cls, attr)
    text, ref = lexical(ctx, conv)
    SNAP_TOKENS[0] = None
    if ref[0] == "dec" and ctx.known("C03-negative-zero"):
        return
    node.text = text
    got, cats = try_convert(tree)
    ctx.check("a document whose element text is in its type's lexical space is accepted", got is not None)
    if got is None:
        return
    ctx.check("the element reaches the model at the same place with the value its type rules assign",
              value_ok(ctx, got.__dict__.get(attr), ref))
    conds = []
    for a in K.spec_no_listaggregates:
        if a != attr:
            x, y = got.__dict__.get(a), base.__dict__.get(a)
            conds.append(same_model(ctx, x, y))
    ctx.check("no other attribute is invented or displaced", ctx.all(conds) and len(got) == len(base))


def h_listpos(ctx, cls, lattr, full_lists=False):
    """three members of a list attribute; the element of the member at a symbolic position carries the symbolic text"""
    QUICK[0] = not full_lists
    K = ofxgen.class_by_name(cls)
    args, kwargs = ofxgen.base_instance(K)
    M = K.listaggregates[lattr].__type__
    els = elements_of(M)
    attr, conv = els[ctx.choice("attr", list(range(min(len(els), 2 if not full_lists else 6))))]
    members = []
    for i in range(3):
        members.append(rich_instance(M, attr))
    inst = ofxgen.build(K, members, kwargs)
    tree = inst.to_etree()
    pos = ctx.choice("pos", [0, 1, 2])
    nodes = [ch for ch in tree if ch.tag == M.__name__]
    target = None
    for ch in nodes[pos]:
        if ch.tag == ofxgen.wire_tag(M, attr):
            target = ch
    text, ref = lexical(ctx, conv)
    target.text = text
    got, cats = try_convert(tree)
    ctx.check("the document is accepted", got is not None)
    if got is None:
        return
    ctx.check("list members keep their number and order", len(got) == 3)
    gm = list(list.__iter__(got))
    ctx.check("the element of the member at that list position carries the value", value_ok(ctx, gm[pos].__dict__.get(attr), ref))
    for i in range(3):
        if i != pos:
            ctx.check("other list members are untouched", same_model(ctx, gm[i], members[i]))


def h_document_text(ctx, closed):
    """the whole route from text: a transaction written out as OFX text (elements of their full declared length, symbolic
    first and last characters), read by the library's parser and converted"""
    from ofxtools import Parser
    from sx.models.etree import make_treebuilder
    K = ofxgen.class_by_name("STMTTRN")

    def full(name, n):
        filler = ("The quick brown fox jumps over the lazy dog 0123456789 " * 8)[:n - 2]
        # in text, a raw '<' would be markup: character data may contain anything else (raw '&' is C10's subject)
        nolt = [(0x21, 0x25), (0x27, 0x3B), (0x3D, 0x7E), (0xA1, 0xFF), (0x100, 0x100), (0x20AC, 0x20AC), (0x4E2D, 0x4E2D)]
        return ctx.str(name + "_a", 1, nolt) + filler + ctx.str(name + "_z", 1, nolt)
    vals = [("TRNTYPE", "CREDIT"), ("DTPOSTED", "20200229120000"), ("TRNAMT", "-12.50"), ("FITID", full("fitid", 255)), ("NAME", full("name", 32)),
            ("MEMO", full("memo", 255))]
    text = "<STMTTRN>" + "".join(["<" + t + ">" + v + ("</" + t + ">" if closed else "") + "\r\n" for t, v in vals]) + "</STMTTRN>"
    tb = make_treebuilder(Parser.TreeBuilder, ctx.mode == "sym")
    tb.feed(text)
    got, cats = try_convert(tb.close())
    ctx.check("a document whose element text is in its type's lexical space is accepted", got is not None)
    if got is None:
        return
    ctx.check("the element reaches the model at the same place with the value its type rules assign",
              ctx.all([got.fitid == vals[3][1], got.name == vals[4][1], got.memo == vals[5][1], got.trntype == "CREDIT"]))


HARNESSES = dict(element=h_element, listpos=h_listpos, document_text=h_document_text)

META = dict(
    bounds=dict(documents="the class's document (a valid instance holding the element) with one element text symbolic at a time",
                texts="Y/N; sign + 1-4 digits; decimals <= 4 digits with '.' or ','; character data 1-3 chars over the printable alphabet and texts of the full declared length (300 where undeclared) with symbolic ends, "
                      "with one entity escape at a symbolic position; every enumeration token recorded in spec_enums.json (snapshot oracle, 48 token sets / 129 elements); 5 date-time / 3 time notation shapes with symbolic digits",
                lists="3 members, symbolic position"),
    models=["instrumented from_etree/_convert/update_args/__init__/Element.__set__ + the converters of C09/C10"],
    assumptions=["reference type rules: harness/c09.py calendar arithmetic, harness/c10.py entity decoder and half-even quantizer"],
)


def instances(tier, seed):
    out = []
    full = tier != "quick"

    def mk(name, h, params, **opts):
        opts.setdefault("wall_s", 180 if not full else 900)
        opts.setdefault("timeout_ms", 20000)
        out.append(dict(name=name, harness=h, fn=HARNESSES[h], params=params, opts=opts))
    for closed in (False, True):
        mk(f"document_text[end tags={closed}]", "document_text", dict(closed=closed))
    # every recorded enumeration token of every distinct token set (quick: one element per set; thorough: every element)
    snap = snapshot()
    seen_sets = set()
    for key in sorted(snap["attrs"]):
        cn, an = key.split(".")
        sid = snap["attrs"][key]
        K = getattr(ofxgen.ofxtools.models, cn, None)
        if K is None or an not in K.spec_no_listaggregates or (not full and sid in seen_sets):
            continue
        if rich_instance(K, an) is None:
            continue
        seen_sets.add(sid)
        mk(f"enum[{key}]", "element", dict(cls=cn, attrs=[an], quick=not full), max_paths=20000)
    for K in ofxgen.pick_classes(tier, seed):
        n = K.__name__
        if elements_of(K):
            mk(f"element[{n}]", "element", dict(cls=n, attrs=pick_elements(K, full, seed), quick=not full), max_paths=20000)
        if not issubclass(K, ofxgen.ElementList):
            for la, conv in list(K.listaggregates.items())[: (1 if not full else 3)]:
                if not full and not ofxgen.is_core(conv.__type__):
                    continue
                try:
                    a0, k0 = ofxgen.base_instance(K)
                    ofxgen.build(K, [ofxgen._member_for(K, la, 0) for _ in range(3)], k0)
                except Exception:
                    continue
                if elements_of(conv.__type__):
                    mk(f"listpos[{n}.{la}]", "listpos", dict(cls=n, lattr=la, full_lists=full), max_paths=20000)
    return out
