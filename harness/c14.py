"""C14 - the client sends only what it should, where it should, and nothing on a dry run."""
import datetime, io, urllib.request
from ofxtools import Client, config, utils, models
from ofxtools.Client import OFXClient, StmtRq, CcStmtRq, InvStmtRq, StmtEndRq, CcStmtEndRq, AUTH_PLACEHOLDER
from ofxtools.Parser import OFXTree
from sx import rt
from sx.instrument import optimized_copy
from harness.envstubs import FakeFS, FakePath, FakeResponse, FakeNet
import ofxgen

PID = "C14"
UTC = utils.UTC
URL_CFG = "https://configured.example/ofx"
URL_ADV = "https://advertised.example/ofx"


@rt.native
class ProfilePayload:
    def __init__(self, date, msgsets):
        self.date, self.msgsets = date, msgsets


@rt.native
class Obj:
    def __init__(self, **k):
        self.__dict__.update(k)


@rt.native
class FakeTree:
    def parse(self, source, parser=None):
        self.src = source.payload if isinstance(source, FakeResponse) else source

    def convert(self):
        p = self.src
        if isinstance(p, ProfilePayload):
            return Obj(profmsgsrsv1=[Obj(status=Obj(code=0), profrs=Obj(dtprofup=p.date), msgsetlist=p.msgsets)])
        if p == "UPTODATE":
            return Obj(profmsgsrsv1=[Obj(status=Obj(code=1))])
        raise SyntaxError("unexpected document")


def fake_bytesio(x=b""):
    return FakeResponse(x, None, "buf")


def mk_msgset(clsname, url, closingavail):
    """real *MSGSET model advertising `url` (built natively)"""
    K = ofxgen.class_by_name(clsname)
    a, k = ofxgen.base_instance(K)
    import copy
    inst = copy.deepcopy(ofxgen.build(K, a, k))          # sub-aggregates of generated instances are shared: never mutate them in place
    v1 = [v for v in inst.__dict__.values() if v is not None][0]
    v1.__dict__["msgsetcore"].__dict__["url"] = url
    if "closingavail" in v1.__dict__:
        v1.__dict__["closingavail"] = closingavail
    return inst


rt.NATIVE_FUNCS.add(mk_msgset)


def creds_of(body):
    """(userid, userpass, has PROFRQ) of a serialized request - read natively by the real parser"""
    t = OFXTree()
    t.parse(io.BytesIO(body))
    ofx = t.convert()
    so = ofx.signonmsgsrqv1.sonrq
    return so.userid, so.userpass, ofx.profmsgsrqv1 is not None


rt.NATIVE_FUNCS.add(creds_of)


def setup(ctx, log, persist_cookies, advertised, configured, fault=None, advertised_inv=None, noassert=False):
    """advertised_inv: another URL advertised for investment statements (default: the same for every message set);
    noassert: the client module as `python -O` loads it"""
    C = optimized_copy(Client) if noassert else Client
    fs = FakeFS(log)
    ctx.stub_attr(config, "DATADIR", FakePath(fs, ["data"]))
    ctx.stub(C, "open", fs.open)
    import os
    ctx.stub(os, "replace", fs.replace)
    ctx.stub(C, "OFXTree", FakeTree)
    ctx.stub(C, "BytesIO", fake_bytesio)
    msgsets = [mk_msgset("BANKMSGSET", advertised, True), mk_msgset("CREDITCARDMSGSET", advertised, False),
               mk_msgset("INVSTMTMSGSET", advertised if advertised_inv is None else advertised_inv, None), mk_msgset("SIGNUPMSGSET", advertised, None)]
    profile = ProfilePayload(datetime.datetime(2021, 1, 1, tzinfo=UTC), msgsets)

    def responder(req):
        uid, pw, is_prof = creds_of(req["data"])
        if is_prof and fault == "profile_fetch":
            import urllib.error
            raise urllib.error.URLError("connection refused")
        if is_prof and fault == "profile_http":
            import urllib.error
            raise urllib.error.HTTPError(req["url"], 503, "Service Unavailable", None, None)
        return profile if is_prof else b"RESPONSE"
    net = FakeNet(log, responder)
    ctx.stub(urllib.request, "HTTPCookieProcessor", net.HTTPCookieProcessor)
    ctx.stub(urllib.request, "build_opener", net.build_opener)
    ctx.stub(urllib.request, "Request", net.Request)
    if fault in ("write", "replace"):
        fs.fail = fault
    client = C.OFXClient(configured, userid="alice", org="O", fid="F", persist_cookies=persist_cookies, useragent="UA/1", bankid="B", brokerid="BR")
    return fs, client


def do_request(ctx, client, kind, dryrun, skip_profile):
    if kind == "statements":
        # any of the five request kinds, alone or two together (closing statements are advertised for bank accounts only)
        rqs = [StmtRq(acctid="1", accttype="CHECKING"), CcStmtRq(acctid="2"), InvStmtRq(acctid="3"), StmtEndRq(acctid="1", accttype="SAVINGS"), CcStmtEndRq(acctid="2")]
        i = ctx.choice("request_kind", list(range(len(rqs))))
        j = ctx.choice("second_request_kind", [None] + list(range(len(rqs))))
        chosen = [rqs[i]] + ([rqs[j]] if j is not None else [])
        if j is None and i in (0, 3) and ctx.bool("long_request_list"):
            # a large household: 24 more accounts with date ranges (the body grows to several kilobytes)
            d0, d1 = datetime.datetime(2020, 1, 1, tzinfo=UTC), datetime.datetime(2020, 12, 31, tzinfo=UTC)
            chosen = chosen + [InvStmtRq(acctid="I%03d" % k, dtstart=d0, dtend=d1, dtasof=d1) for k in range(12)] + \
                [StmtRq(acctid="B%03d" % k, accttype="SAVINGS", dtstart=d0, dtend=d1) for k in range(12)]
        return client.request_statements("s3cret", *chosen, dryrun=dryrun, skip_profile=skip_profile)
    if kind == "accounts":
        return client.request_accounts("s3cret", datetime.datetime(2020, 1, 1, tzinfo=UTC), dryrun=dryrun, skip_profile=skip_profile)
    if kind == "tax":
        return client.request_tax1099("s3cret", "2020", dryrun=dryrun, skip_profile=skip_profile)
    return client.request_profile(dryrun=dryrun)


def h_send(ctx, kind):
    log = []
    dryrun = ctx.bool("dryrun")
    skip = ctx.bool("skip_profile") if kind != "profile" else False
    persist = ctx.bool("persist_cookies")
    cache = ctx.bool("profile_cached")
    # configured and advertised service URLs are symbolic hosts: equal or different is up to the solver
    cfg = "https://" + ctx.str("cfg_host", 2, "a-z") + "/ofx"
    adv = "https://" + ctx.str("adv_host", 2, "a-z") + "/ofx"
    fs, client = setup(ctx, log, persist, adv, cfg)
    if cache:
        fs.files["data/fiprofiles/O-F.profrs"] = ProfilePayload(datetime.datetime(2020, 1, 1, tzinfo=UTC), [])
    jar = client.cookiejar
    do_request(ctx, client, kind, dryrun, skip)
    posts = [e for e in log if e[0] == "POST"]
    openers = [e for e in log if e[0] == "build_opener"]
    if dryrun:
        ctx.check("a dry run performs no network request", len(posts) == 0 and len(openers) == 0)
        return
    expect_profile_post = (kind == "profile") or not skip
    n_expected = (1 if expect_profile_post else 0) + (0 if kind == "profile" else 1)
    ctx.check("exactly one HTTP POST per request (plus the profile lookup when it is not skipped)", len(posts) == n_expected)
    for _, req, handlers, timeout in posts:
        uid, pw, is_prof = creds_of(req["data"])
        h = req["headers"]
        ctx.check("every request is a POST whose body is a serialized OFX request with the OFX content type, an Accept admitting it and the configured user agent",
                  req["method"] == "POST" and h.get("Content-Type") == "application/x-ofx" and "application/x-ofx" in h.get("Accept", "")
                  and h.get("User-Agent") == "UA/1")
        if is_prof:
            ctx.check("profile requests go to the configured URL", req["url"] == cfg)
            ctx.check("profile requests carry only the anonymous placeholder credentials", uid == AUTH_PLACEHOLDER and pw == AUTH_PLACEHOLDER)
        else:
            ctx.check("requests carrying the user's credentials go only to the advertised URL (configured URL when the profile is skipped)",
                      req["url"] == (cfg if skip else adv))
            ctx.check("the credentialed request carries the user's own id and password", uid == "alice" and pw == "s3cret")
        if persist:
            ctx.check("the opener replays cookies from this client's own jar", len(handlers) == 1 and handlers[0][0] == "cookieproc" and handlers[0][1] is jar)
        else:
            ctx.check("no cookie handling when cookie persistence is off", len(handlers) == 0)
    ctx.check("the client's cookie jar is never replaced", client.cookiejar is jar)


def h_send_fault(ctx, kind):
    """the profile lookup fails part-way (network error, HTTP error, the cache cannot be written): whatever happens then, the
    user's credentials are never sent to a URL the profile does not advertise for that request"""
    log = []
    fault = ctx.choice("fault", ["profile_fetch", "profile_http", "write", "replace"])
    persist = ctx.bool("persist_cookies")
    cache = ctx.bool("profile_cached")
    cfg = "https://" + ctx.str("cfg_host", 2, "a-z") + "/ofx"
    adv = "https://" + ctx.str("adv_host", 2, "a-z") + "/ofx"
    fs, client = setup(ctx, log, persist, adv, cfg, fault)
    if cache:
        fs.files["data/fiprofiles/O-F.profrs"] = ProfilePayload(datetime.datetime(2020, 1, 1, tzinfo=UTC), [])
    failed = False
    try:
        do_request(ctx, client, kind, False, False)
    except OSError:
        failed = True
    ctx.observe("request_failed", failed)
    for e in log:
        if e[0] != "POST":
            continue
        req = e[1]
        uid, pw, is_prof = creds_of(req["data"])
        if is_prof:
            ctx.check("profile requests carry only the anonymous placeholder credentials", uid == AUTH_PLACEHOLDER and pw == AUTH_PLACEHOLDER)
        else:
            ctx.check("after a failed profile lookup the user's credentials still go only to the advertised URL", req["url"] == adv)


def h_send_split(ctx, noassert):
    """the profile advertises one URL for bank / credit-card statements and (possibly) another for investment statements: a
    statement request is refused or goes to the URL advertised for its own kind - also when assert statements are compiled away"""
    log = []
    cfg = "https://" + ctx.str("cfg_host", 2, "a-z") + "/ofx"
    adv = "https://" + ctx.str("adv_host", 2, "a-z") + "/ofx"
    adv2 = "https://" + ctx.str("adv_inv_host", 2, "a-z") + "/ofx"
    fs, client = setup(ctx, log, False, adv, cfg, None, adv2, noassert)
    inv = ctx.bool("investment_statement")
    C = optimized_copy(Client) if noassert else Client           # the request tuples are classes of that module
    rq = C.InvStmtRq(acctid="3") if inv else C.StmtRq(acctid="1", accttype="CHECKING")
    failed = None
    try:
        client.request_statements("s3cret", rq)
    except (AssertionError, ValueError) as e:
        failed = type(e).__name__
    ctx.observe("refused", failed)
    for e in log:
        if e[0] != "POST":
            continue
        req = e[1]
        uid, pw, is_prof = creds_of(req["data"])
        if not is_prof:
            ctx.check("credentials go only to the URL advertised for that kind of request", req["url"] == (adv2 if inv else adv))


def profile_date_of(body):
    """DTPROFUP of a serialized profile request - read natively by the real parser"""
    t = OFXTree()
    t.parse(io.BytesIO(body))
    return t.convert().profmsgsrqv1[0].profrq.dtprofup


rt.NATIVE_FUNCS.add(profile_date_of)
INSTITUTIONS = [("msdw.com", "1235", "msdw.com", "14137"), ("foo.com", "1", "foo.net", "1"), ("O", "1.5", "O", "1.7"), ("a.b", None, "a.c", None), ("A", "1", "A", "2")]


def h_two_institutions(ctx):
    """two institutions with different ORG/FID (dots included), one cache directory: a request for the first fills the cache,
    then the second user's credentials must still go only where the second institution's own profile says"""
    log = []
    org1, fid1, org2, fid2 = ctx.choice("institutions", INSTITUTIONS)
    newer = ctx.bool("second_profile_is_newer")
    fs = FakeFS(log)
    ctx.stub_attr(config, "DATADIR", FakePath(fs, ["data"]))
    ctx.stub(Client, "open", fs.open)
    import os
    ctx.stub(os, "replace", fs.replace)
    ctx.stub(Client, "OFXTree", FakeTree)
    ctx.stub(Client, "BytesIO", fake_bytesio)
    servers = {}
    for n, date in (("one", datetime.datetime(2021, 1, 1, tzinfo=UTC)), ("two", datetime.datetime(2022 if newer else 2020, 1, 1, tzinfo=UTC))):
        adv = "https://" + n + ".example/service"
        servers["https://" + n + ".example/ofx"] = ProfilePayload(date, [mk_msgset("BANKMSGSET", adv, True), mk_msgset("SIGNUPMSGSET", adv, None)])

    def responder(req):
        uid, pw, is_prof = creds_of(req["data"])
        if not is_prof:
            return b"RESPONSE"
        mine = servers[req["url"]]
        have = profile_date_of(req["data"])
        return "UPTODATE" if (have is not None and have >= mine.date) else mine
    net = FakeNet(log, responder)
    ctx.stub(urllib.request, "HTTPCookieProcessor", net.HTTPCookieProcessor)
    ctx.stub(urllib.request, "build_opener", net.build_opener)
    ctx.stub(urllib.request, "Request", net.Request)
    c1 = OFXClient("https://one.example/ofx", userid="alice", org=org1, fid=fid1, bankid="B")
    c2 = OFXClient("https://two.example/ofx", userid="bob", org=org2, fid=fid2, bankid="B")
    c1.request_statements("pw-alice", StmtRq(acctid="1", accttype="CHECKING"))
    c2.request_statements("pw-bob", StmtRq(acctid="2", accttype="CHECKING"))
    for _, req, handlers, timeout in [e for e in log if e[0] == "POST"]:
        uid, pw, is_prof = creds_of(req["data"])
        if is_prof:
            ctx.check("profile requests carry only the anonymous placeholder credentials", uid == AUTH_PLACEHOLDER and pw == AUTH_PLACEHOLDER)
        else:
            want = "https://one.example/service" if uid == "alice" else "https://two.example/service"
            ctx.check("requests carrying the user's credentials go only to the URL the institution's own profile advertises", req["url"] == want)
            ctx.check("the credentialed request carries the user's own id and password", (uid, pw) in (("alice", "pw-alice"), ("bob", "pw-bob")))


def h_jars(ctx):
    a = OFXClient(URL_CFG)
    b = OFXClient(URL_CFG)
    ctx.check("every client instance has its own cookie jar", a.cookiejar is not b.cookiejar and a.cookiejar is not None)
    ctx.check("the jar is an instance attribute, not shared class state", "cookiejar" in a.__dict__ and "cookiejar" not in vars(OFXClient))


HARNESSES = dict(send_split=h_send_split, send_fault=h_send_fault, send=h_send, jars=h_jars, two_institutions=h_two_institutions)

META = dict(
    bounds=dict(requests="statements (one or two of the five statement request kinds; the profile advertises closing statements for bank accounts only) / account-info / tax / profile, each with symbolic dryrun, skip_profile, persist_cookies, advertised URL equal to or different from the configured one, profile cached or not",
                profile="4 message sets advertising the service URL",
                institutions="two clients of two institutions (5 ORG/FID pairs, with and without dots) sharing one cache directory, second server's profile older or newer"),
    models=["instrumented request_statements/request_accounts/request_tax1099/request_profile/_request_profile/_get_service_urls/download/post_request/http_headers/serialize",
            "stubs: urllib.request.build_opener/Request/HTTPCookieProcessor (effect log), config.DATADIR/open/os.replace (file model), OFXTree in Client (model view of the response), BytesIO"],
    assumptions=["behaviour of http.cookiejar / HTTPCookieProcessor themselves (trusted stdlib): 'replayed on later requests' is reduced to 'every opener of client A is built over A's own jar'",
                 "the requests-library transport is not installed here (USE_REQUESTS is False) and is outside the claim"],
)


def instances(tier, seed):
    out = []
    for k in ("statements", "accounts", "tax", "profile"):
        out.append(dict(name=f"send[{k}]", harness="send", fn=h_send, params=dict(kind=k), opts=dict(wall_s=300, max_paths=2000)))
    for k in ("statements", "accounts", "tax"):
        out.append(dict(name=f"send_fault[{k}]", harness="send_fault", fn=h_send_fault, params=dict(kind=k), opts=dict(wall_s=300, max_paths=2000)))
    for na in (False, True):
        out.append(dict(name=f"send_split[{'python -O' if na else 'default'}]", harness="send_split", fn=h_send_split, params=dict(noassert=na), opts=dict(wall_s=300, max_paths=2000)))
    out.append(dict(name="jars", harness="jars", fn=h_jars, params={}, opts=dict(wall_s=60)))
    out.append(dict(name="two_institutions", harness="two_institutions", fn=h_two_institutions, params={}, opts=dict(wall_s=300)))
    return out
