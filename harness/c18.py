"""C18 - ofxget settings obey CLI > user file > FI db > OFX Home > defaults, and persist."""
import argparse, os, tempfile, pathlib, shutil
from ofxtools import config, ofxhome
from ofxtools.scripts import ofxget
from sx import rt

PID = "C18"
SERVER = "srvnick"
STR_OPTS = ["url", "org", "fid", "brokerid", "bankid", "appid", "appver", "language", "useragent", "user", "clientuid"]
INT_OPTS = ["version"]
BOOL_OPTS = ["pretty", "unclosedelements", "nonewfileuid", "skipprofile"]
LIST_OPTS = ["checking", "savings", "moneymrkt", "creditline", "creditcard", "investment"]
HOME_OPTS = ["url", "org", "fid", "brokerid"]
ALL_OPTS = STR_OPTS + INT_OPTS + BOOL_OPTS + LIST_OPTS


@rt.native
class Obj:
    def __init__(self, **k):
        self.__dict__.update(k)


def value_for(opt, source):
    """a distinct, well-typed value of option opt for each source (cli/usr/lib/home)"""
    i = ["cli", "usr", "lib", "home"].index(source)
    if opt in INT_OPTS:
        return [102, 103, 151, 160][i]
    if opt in BOOL_OPTS:
        return [True, False, True, False][i]
    if opt in LIST_OPTS:
        return [["c1"], ["u1", "u2"], ["l1"], ["h1"]][i]
    if opt == "url":
        return ["https://cli.example/ofx", "https://usr.example/ofx", "https://lib.example/ofx", "https://home.example/ofx"][i]
    return source + "-" + opt[:3]


# every spelling configparser documents for a boolean (a hand-edited user file), case-insensitively
BOOL_SPELLINGS = [("true", "false"), ("yes", "no"), ("on", "off"), ("1", "0"), ("True", "False"), ("YES", "No"), ("On", "OFF")]


def ini_value(v, sp=0):
    if isinstance(v, bool):
        return BOOL_SPELLINGS[sp][0 if v else 1]
    if isinstance(v, list):
        return ", ".join(v)
    return str(v).replace("%", "%%")


def make_config(lib, usr, sp=0):
    """UserConfig layered like ofxget does: library file first, user file second (natively); sp: spelling of booleans in the user file"""
    cfg = ofxget.UserConfig()
    for d, spd in ((lib, 0), (usr, sp)):
        if d:
            cfg.read_string("[" + SERVER + "]\n" + "\n".join(f"{k} = {ini_value(v, spd)}" for k, v in d.items()) + "\n")
    return cfg


rt.NATIVE_FUNCS.add(make_config)


# ---------------------------------------------------------------- precedence
def h_precedence(ctx, opt):
    cli, usr, lib = ctx.bool("cli"), ctx.bool("usr"), ctx.bool("lib")
    home = ctx.bool("home") if opt in HOME_OPTS else False
    libd, usrd = {}, {}
    if lib:
        libd[opt] = value_for(opt, "lib")
    usrv = value_for(opt, "usr")
    if usr and opt in BOOL_OPTS:
        usrv = ctx.bool("usr_value")
    if usr:
        usrd[opt] = usrv
    if home:
        usrd["ofxhome"] = "424"
    cliv = None
    if cli:
        cliv = ctx.str("cliurl", 3, "a-z:/.") if (opt == "url") else value_for(opt, "cli")
    ns = argparse.Namespace(server=SERVER, request="stmt", dryrun=True)
    setattr(ns, opt, cliv)
    looked = []

    def lookup(id_):
        looked.append(id_)
        return Obj(url=value_for("url", "home"), org=value_for("org", "home"), fid=value_for("fid", "home"), brokerid=value_for("brokerid", "home")) if home else None
    ctx.stub(ofxhome, "lookup", lookup)
    sp = ctx.choice("bool_spelling", list(range(len(BOOL_SPELLINGS)))) if (opt in BOOL_OPTS and usr) else 0
    cfg = make_config(libd, usrd, sp)
    merged = ofxget.merge_config(ns, cfg)
    if cli:
        want = cliv
    elif usr:
        want = usrv
    elif lib:
        want = value_for(opt, "lib")
    elif home:
        want = value_for(opt, "home")
    else:
        want = ofxget.DEFAULTS[opt]
    ctx.check("the value in effect is the one from the highest-ranking place that sets it", merged[opt] == want)
    # independence: another option set only in a lower-ranking place is not disturbed
    other = "language" if opt != "language" else "appid"
    ctx.check("other options are unaffected", merged[other] == ofxget.DEFAULTS[other])


# ---------------------------------------------------------------- persistence
CANDIDATES = {
    "url": ["https://a.example/ofx", "https://a.example/a%20b", "https://a.example/100%"],
    "version": [102, 203, 220],
    "pretty": [True, False],
    "unclosedelements": [True, False],
    "org": ["ORG", "O%G"],
    "user": ["alice", "bob"],
    "checking": [["123"], ["1", "22"], ["A-1", "B-2", "C-3"], ["12 3456 789"], ["1000001", "1000002", "1000003", "1000004", "1000005", "1000006", "1000007"],
                 ["%d" % (10000000 + i) for i in range(24)]],
    "creditcard": [["4111"], ["1", "2"], ["4111-%04d" % i for i in range(9)]],
    "useragent": ["UA/1"],
    "clientuid": ["CUID-1"],
}
PRIOR = {"url": "https://old.example/ofx", "version": 102, "pretty": True, "unclosedelements": True, "org": "OLD", "user": "olduser",
         "checking": ["999"], "creditcard": ["888"], "useragent": "OLD/0", "clientuid": "OLD-CUID"}


def fresh_dir():
    base = "/dev/shm" if os.path.isdir("/dev/shm") else None
    return tempfile.mkdtemp(prefix="c18-", dir=base)


rt.NATIVE_FUNCS.add(fresh_dir)


def read_text(path):
    try:
        with open(path) as f:
            return f.read()
    except FileNotFoundError:
        return None


rt.NATIVE_FUNCS.add(read_text)


def write_text(path, text):
    with open(path, "w") as f:
        f.write(text)


rt.NATIVE_FUNCS.add(write_text)


def rmtree(d):
    shutil.rmtree(d, ignore_errors=True)


rt.NATIVE_FUNCS.add(rmtree)


def run_once(ctx, ns):
    """one ofxget run up to (and including) the optional --write, on the current user file"""
    cfg = ofxget.UserConfig()
    cfg.read([ofxget.CONFIGPATH, ofxget.USERCONFIGPATH])
    args = ofxget.merge_config(ns, cfg)
    if args["write"]:
        ofxget.write_config(args)
    return args


def lib_nick(opt):
    """a server nickname of the bundled FI database whose value for opt differs from the built-in default (or None)"""
    for nick in ofxget.LIBCFG.sections():
        if nick == "NAMES":
            continue
        v = ofxget.read_config(ofxget.LIBCFG, nick).get(opt)
        if v is not None and v != ofxget.DEFAULTS.get(opt):
            return nick
    return None


rt.NATIVE_FUNCS.add(lib_nick)


def h_persist(ctx, opt, libserver=False):
    server = lib_nick(opt) if libserver else SERVER
    if server is None:
        return
    d = fresh_dir()
    try:
        path = os.path.join(d, "ofxget.cfg")
        ctx.stub_attr(ofxget, "USERCONFIGPATH", path)
        ctx.stub_attr(config, "USERCONFIGDIR", pathlib.Path(d))
        ctx.stub(ofxhome, "lookup", lambda id_: None)
        prior = ctx.bool("prior_value_in_file")
        if prior:
            write_text(path, "[" + server + "]\nurl = https://old.example/ofx\n" + (f"{opt} = {ini_value(PRIOR[opt])}\n" if opt != "url" else ""))
        cands = CANDIDATES[opt]
        v = cands[ctx.choice("value", list(range(len(cands))))]
        dry = ctx.bool("dryrun")
        before = read_text(path)
        ns = argparse.Namespace(server=server, request="stmt", write=True, dryrun=dry, password="hunter2", url="https://a.example/ofx" if opt != "url" else None)
        setattr(ns, opt, v)
        failed = None
        if isinstance(v, str) and "%" in v and ctx.known("C18-percent-in-value-breaks-write"):
            return
        if prior and ctx.known("C18-default-valued-option-not-overwritten", v == ofxget.DEFAULTS.get(opt)):
            return
        try:
            run_once(ctx, ns)
        except ValueError as e:
            failed = "ValueError"
        ctx.observe("failed", failed)
        ctx.check("saving the settings does not fail", failed is None)
        if failed:
            return
        after = read_text(path)
        if dry:
            ctx.check("nothing is stored on a dry run", after == before)
            return
        ctx.check("the password is never stored", after is not None and "hunter2" not in after)
        # run again without the option on the command line
        ns2 = argparse.Namespace(server=server, request="stmt", dryrun=True)
        args2 = run_once(ctx, ns2)
        ctx.check("running again without the command-line option yields the saved value", args2[opt] == v)
        # a generated default CLIENTUID is kept across runs
        cfg = ofxget.UserConfig()
        cfg.read([path])
        cu1 = cfg[cfg.default_section].get("clientuid")
        # ... whether the later --write is for the same server or for a nickname seen for the first time
        if ctx.bool("later_write_same_server"):
            ns3 = argparse.Namespace(server=server, request="stmt", write=True, dryrun=False, language="FRA")
        else:
            ns3 = argparse.Namespace(server="newbank", request="stmt", write=True, dryrun=False, language="FRA", url="https://new.example/ofx")
        run_once(ctx, ns3)
        cfg = ofxget.UserConfig()
        cfg.read([path])
        ctx.check("one generated default CLIENTUID is kept across runs", cu1 is not None and cfg[cfg.default_section].get("clientuid") == cu1)
        ctx.check("a later --write of other settings does not lose the saved value", run_once(ctx, ns2)[opt] == v)
    finally:
        rmtree(d)


def cli_tokens(opt, value):
    """command-line tokens that set option opt through the real argument parser"""
    flag = {"unclosedelements": "--unclosedelements", "nonewfileuid": "--nonewfileuid", "skipprofile": "--skipprofile", "pretty": "--pretty"}.get(opt, "--" + opt)
    if opt in BOOL_OPTS:
        return [flag]
    if opt in LIST_OPTS:
        out = []
        for v in value:
            out += [flag, v]
        return out
    return [flag, str(value)]


def parse_cli(tokens):
    import contextlib, io
    with contextlib.redirect_stderr(io.StringIO()):
        return ofxget.make_argparser().parse_args(tokens)


rt.NATIVE_FUNCS.update({cli_tokens, parse_cli})


def h_argparser(ctx, opt):
    """the real argument parser in front of merge_config: an option absent from the command line must not shadow the
    stored value; one given on the command line wins"""
    given = ctx.bool("given_on_command_line")
    usr = ctx.bool("stored_in_user_file")
    cliv = value_for(opt, "cli")
    if opt in BOOL_OPTS:
        cliv = True
    usrv = value_for(opt, "usr") if opt not in BOOL_OPTS else True
    tokens = ["stmt", SERVER, "--dryrun"] + (cli_tokens(opt, cliv) if given else [])
    ns = parse_cli(tokens)
    ctx.stub(ofxhome, "lookup", lambda id_: None)
    cfg = make_config({}, {opt: usrv} if usr else {})
    merged = ofxget.merge_config(ns, cfg)
    want = cliv if given else (usrv if usr else ofxget.DEFAULTS[opt])
    ctx.check("through the real argument parser: command line if given, else the stored value, else the default", merged[opt] == want)
    others = [o for o in BOOL_OPTS + ["version", "org"] if o != opt]
    ctx.check("options not given on the command line stay unset there", all([o not in ofxget.extractns(ns) for o in others]))


def h_layering(ctx):
    """side condition: the bundled FI database is read before the user's file, so the user's file wins within a section"""
    import inspect
    src = inspect.getsource(ofxget)
    ctx.check("USERCFG reads the library file first and the user file second", "USERCFG.read([CONFIGPATH, USERCONFIGPATH])" in src)
    ctx.check("configured options have typed readers", set(ofxget.CONFIGURABLE) >= set(ALL_OPTS))


HARNESSES = dict(argparser=h_argparser, precedence=h_precedence, persist=h_persist, layering=h_layering)

META = dict(
    bounds=dict(precedence="every configurable option; symbolic subset of the places that set it (command line, user section, library section, OFX Home for url/org/fid/brokerid); "
                           "the command-line URL is 3 symbolic characters, other values are distinct well-typed constants per place",
                persistence="per persistable option: prior value in the user file or not, 2-3 candidate values (incl. URLs containing '%', the library default, multi-element lists), dry run or not; "
                            "--write, then a run without the option, then another --write"),
    models=["instrumented merge_config/extractns/read_config/convert_list/merge_from_ofxhome/write_config/mk_server_cfg/test_cfg_val/arg2config",
            "configparser and the user file are real (a private temporary directory); ofxhome.lookup is stubbed"],
    assumptions=["argparse itself and the FI database content are outside the claim; option values are concrete candidates (configparser rejects symbolic strings), list elements without ', [ ] or leading/trailing blanks"],
)


def instances(tier, seed):
    out = []
    for o in ALL_OPTS:
        out.append(dict(name=f"argparser[{o}]", harness="argparser", fn=h_argparser, params=dict(opt=o), opts=dict(wall_s=120)))
        out.append(dict(name=f"precedence[{o}]", harness="precedence", fn=h_precedence, params=dict(opt=o), opts=dict(wall_s=120)))
    for o in CANDIDATES:
        out.append(dict(name=f"persist[{o}]", harness="persist", fn=h_persist, params=dict(opt=o), opts=dict(wall_s=300)))
        if lib_nick(o) is not None:
            out.append(dict(name=f"persist[{o},FI database nickname]", harness="persist", fn=h_persist, params=dict(opt=o, libserver=True), opts=dict(wall_s=300)))
    out.append(dict(name="layering", harness="layering", fn=h_layering, params={}, opts=dict(wall_s=30)))
    return out
