"""Helpers shared by the per-class harnesses (instrumented together with the harnesses)."""
import datetime, decimal, warnings
import xml.etree.ElementTree as ET
from ofxtools import Types, utils
from ofxtools.models.base import Aggregate, UnknownTagWarning
from sx.models.dec import parts as dec_parts
from sx.run import PRINTABLE
import ofxgen

REJECT = (ValueError, TypeError, SyntaxError, ArithmeticError, AssertionError)
UTC = utils.UTC
NOWS = [(0x21, 0x7E), (0xA1, 0xFF), (0x100, 0x100), (0x20AC, 0x20AC), (0x4E2D, 0x4E2D)]   # printable, no blanks


def try_construct(K, args, kw):
    """(instance | None, number of warnings)"""
    try:
        with warnings.catch_warnings(record=True) as w:
            warnings.simplefilter("always")
            return K(*args, **kw), len(w)
    except REJECT:
        return None, 0


def try_convert(tree):
    """(instance | None, warning categories)"""
    try:
        with warnings.catch_warnings(record=True) as w:
            warnings.simplefilter("always")
            r = Aggregate.from_etree(tree)
            return r, [x.category for x in w]
    except REJECT:
        return None, []


def sym_value(ctx, conv, name):
    """a symbolic python value in the domain of element converter conv (bounded)"""
    if isinstance(conv, Types.ListElement):
        conv = conv.converter
    if isinstance(conv, Types.Bool):
        return ctx.symbool(name)
    if isinstance(conv, Types.OneOf):
        return ctx.enum(name, [v for v in conv.valid])
    if isinstance(conv, Types.String):
        n = 2 if (conv.length is None or conv.length >= 2) else 1
        return ctx.str(name, n, NOWS)
    if isinstance(conv, Types.Integer):
        hi = 10 ** min(conv.length or 4, 4) - 1
        return ctx.int(name, 0, hi)
    if isinstance(conv, Types.Decimal):
        exp = conv.scale.as_tuple().exponent if conv.scale is not None else -2
        return ctx.decimal(name, 99999, exp)
    if isinstance(conv, Types.Time):
        t = ctx.time(name, UTC)
        ctx.assume(t.microsecond % 1000 == 0)
        return t
    if isinstance(conv, Types.DateTime):
        d = ctx.datetime(name, 1900, 2200, UTC)
        ctx.assume(d.microsecond % 1000 == 0)
        return d
    raise TypeError(f"no symbolic value for {conv!r}")


def same_value(ctx, a, b):
    """equality of two element values as the properties define it (decimals: value and exponent)"""
    if a is None or b is None:
        return a is b
    if isinstance(a, decimal.Decimal) or isinstance(b, decimal.Decimal):
        if not (isinstance(a, decimal.Decimal) and isinstance(b, decimal.Decimal)):
            return False
        sa, ca, ea = dec_parts(a)
        sb, cb, eb = dec_parts(b)
        return ctx.all([sa == sb, ca == cb, ea == eb])
    if type(a) is not type(b):
        return False
    return a == b


def same_model(ctx, a, b):
    """structural equality of two model instances"""
    if isinstance(a, Aggregate) or isinstance(b, Aggregate):
        if type(a) is not type(b):
            return False
        conds = []
        for k in type(a).spec_no_listaggregates:
            x, y = a.__dict__.get(k), b.__dict__.get(k)
            if isinstance(x, Aggregate) or isinstance(y, Aggregate):
                conds.append(same_model(ctx, x, y))
            else:
                conds.append(same_value(ctx, x, y))
        la, lb = list(list.__iter__(a)), list(list.__iter__(b))
        if len(la) != len(lb):
            return False
        for x, y in zip(la, lb):
            conds.append(same_model(ctx, x, y))
        return ctx.all(conds)
    return same_value(ctx, a, b)


def children_tags(elem):
    return [c.tag for c in elem]


def find_child(elem, tag):
    for c in elem:
        if c.tag == tag:
            return c
    return None


def count_unknown(cats):
    return len([c for c in cats if c is UnknownTagWarning])


# the body parser instantiated inside OFXTree.parse: stand-in model of the C TreeBuilder base under symbolic execution
from sx import rt as _rt
from sx.models.etree import make_treebuilder as _mktb
from ofxtools import Parser as _Parser


def _tb_hook(f, args, kw):
    if f is _Parser.TreeBuilder:
        return (True, _mktb(f, True))
    return None


_rt.CALL_HOOKS.append(_tb_hook)
