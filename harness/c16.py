"""C16 - shortcuts and flat attribute access agree with the full path; misses are clean."""
import copy, pickle
from ofxtools import Types, models
from ofxtools.models.base import Aggregate
import ofxgen
from harness.common import try_construct, same_model

PID = "C16"
DUNDERS = ["__deepcopy__", "__copy__", "__setstate__", "__getnewargs__", "__getnewargs_ex__", "__wrapped__", "__iter_x__"]
UNDEFINED = ["nosuchattr", "zzz_undefined"]


# ---------------------------------------------------------------- reference: explicit path walk (no getattr on models)
def definers(inst, name, out):
    """all (owner, value) pairs among the present, non-repeated descendants of inst whose class declares `name`
    as a single (non-repeated) child, in document order"""
    K = type(inst)
    for a, conv in K.spec_no_listaggregates.items():
        if not isinstance(conv, Types.SubAggregate):
            continue
        sub = inst.__dict__.get(a)
        if sub is None:
            continue
        if name in type(sub).spec_no_listaggregates:
            out.append((sub, sub.__dict__.get(name)))
        elif class_defines(type(sub), name):
            out.append((sub, "<class attribute>"))
        definers(sub, name, out)
    return out


def class_defines(K, name):
    for b in K.__mro__:
        if name in vars(b):
            return True
    return False


def names_below(K, depth, acc):
    for a, conv in K.spec_no_listaggregates.items():
        if isinstance(conv, Types.SubAggregate):
            T = conv.__type__
            for n in T.spec_no_listaggregates:
                if n not in acc:
                    acc.append(n)
            if depth > 1:
                names_below(T, depth - 1, acc)
    return acc


def build_instance(ctx, K, nopt):
    """base instance + up to nopt optional sub-aggregates of symbolic presence"""
    args, kwargs = ofxgen.base_instance(K)
    kw = dict(kwargs)
    n = 0
    for a, conv in K.spec_no_listaggregates.items():
        if n >= nopt:
            break
        if isinstance(conv, Types.SubAggregate) and a not in kw:
            trial = dict(kw)
            trial[a] = ofxgen.value_for(K, a)
            if try_construct(K, args, trial)[0] is None:
                continue
            n += 1
            if ctx.bool("p_" + a):
                kw = trial
    for a in list(kwargs):
        conv = K.spec_no_listaggregates.get(a)
        if n < nopt + 1 and isinstance(conv, Types.SubAggregate) and not getattr(conv, "required", False):
            trial = {k: v for k, v in kw.items() if k != a}
            if try_construct(K, args, trial)[0] is not None:
                n += 1
                if not ctx.bool("p_" + a):
                    kw = trial
    return ofxgen.build(K, args, kw)


# ---------------------------------------------------------------- generic proxy
def touch_bases(K):
    """preceding workload: flat reads / declaration look-ups on the base classes first"""
    for B in reversed(K.__mro__[1:]):
        if isinstance(B, type) and issubclass(B, Aggregate):
            B.spec
            B.subaggregates
            if B is not Aggregate:
                try:
                    b = B.__new__(B)
                    hasattr(b, "nosuchattr")
                except Exception:
                    pass
    return K


def h_getattr(ctx, cls, nopt):
    K = touch_bases(ofxgen.class_by_name(cls))
    inst = build_instance(ctx, K, nopt)
    cand = names_below(K, 3, [])
    cand = [n for n in cand if n not in K.spec and not class_defines(K, n)][:24]
    name = ctx.enum("name", cand + UNDEFINED + DUNDERS)
    owners = definers(inst, name, [])
    got = None
    exc = None
    try:
        got = getattr(inst, name)
    except AttributeError:
        exc = "AttributeError"
    except Exception as e:
        exc = type(e).__name__
    ctx.observe("exc", exc)
    if len(owners) == 0:
        ctx.check("a name nothing defines raises AttributeError (and nothing else)", exc == "AttributeError")
    elif len(owners) == 1 and owners[0][1] != "<class attribute>":
        ctx.check("a name exactly one descendant defines is readable on the instance", exc is None)
        if exc is None:
            ctx.check("flat access returns the very object stored at the full path", got is owners[0][1])
    else:
        ctx.check("flat access never fails with anything but AttributeError", exc is None or exc == "AttributeError")


def h_copy(ctx, cls, nopt):
    """hasattr / getattr-with-default / copy / deepcopy / pickle work and reproduce an equal model"""
    K = ofxgen.class_by_name(cls)
    inst = build_instance(ctx, K, nopt)
    ok = True
    what = None
    try:
        hasattr(inst, "nosuchattr")
        getattr(inst, "nosuchattr", None)
    except Exception as e:
        ok, what = False, "hasattr:" + type(e).__name__
    ctx.check("hasattr and getattr-with-default work on every instance", ok)
    for label, f in (("copy.copy", copy.copy), ("copy.deepcopy", copy.deepcopy), ("pickle round trip", pickle_rt)):
        dup = None
        try:
            dup = f(inst)
        except Exception as e:
            what = label + ":" + type(e).__name__
        ctx.check(label + " works on every instance", dup is not None)
        if dup is not None:
            ctx.check(label + " reproduces an equal model", same_model(ctx, dup, inst))
    ctx.observe("what", what)


def pickle_rt(x):
    return pickle.loads(pickle.dumps(x))


# ---------------------------------------------------------------- statements shortcuts of the message sets
MSGSETS = {
    "BANKMSGSRQV1": [("STMTTRNRQ", "stmtrq"), ("STMTENDTRNRQ", "stmtendrq")],
    "BANKMSGSRSV1": [("STMTTRNRS", "stmtrs"), ("STMTENDTRNRS", "stmtendrs")],
    "CREDITCARDMSGSRQV1": [("CCSTMTTRNRQ", "ccstmtrq"), ("CCSTMTENDTRNRQ", "ccstmtendrq")],
    "CREDITCARDMSGSRSV1": [("CCSTMTTRNRS", "ccstmtrs"), ("CCSTMTENDTRNRS", "ccstmtendrs")],
    "INVSTMTMSGSRQV1": [("INVSTMTTRNRQ", "invstmtrq")],
    "INVSTMTMSGSRSV1": [("INVSTMTTRNRS", "invstmtrs")],
}


def wrapper(kind, with_stmt):
    W = ofxgen.class_by_name(kind[0])
    args, kw = ofxgen.base_instance(W)
    if not with_stmt and not getattr(W.spec[kind[1]], "required", False):
        kw = {k: v for k, v in kw.items() if k != kind[1]}
    elif with_stmt and kind[1] not in kw:
        kw = dict(kw)
        kw[kind[1]] = ofxgen.value_for(W, kind[1])
    try:
        return ofxgen.build(W, args, kw)
    except Exception:
        a, k = ofxgen.base_instance(W)
        return ofxgen.build(W, a, k)


def h_statements(ctx, cls, n, fixed=0):
    """n wrappers of symbolic kind / presence, after `fixed` concrete ones (longer lists than the symbolic part alone)"""
    K = ofxgen.class_by_name(cls)
    kinds = MSGSETS[cls]
    members = []
    for i in range(fixed):
        members.append((kinds[i % len(kinds)], wrapper(kinds[i % len(kinds)], i % 3 != 2)))
    for i in range(n):
        k = ctx.choice(f"k{i}", list(range(len(kinds))))
        ws = ctx.bool(f"s{i}")
        members.append((kinds[k], wrapper(kinds[k], ws)))
    inst = ofxgen.build(K, [m for _, m in members], {})
    want = []
    for kind, w in members:
        s = w.__dict__.get(kind[1])
        if s is not None:
            want.append(s)
    got = inst.statements
    ctx.check("statements lists every wrapper's statement once", len(got) == len(want))
    if len(got) == len(want):
        ctx.check("statements are the very objects at the full path, in document order", all([g is w for g, w in zip(got, want)]))
    # the instance changes (one more wrapper is appended): the shortcut must follow the full path again
    k = ctx.choice("k_extra", list(range(len(kinds))))
    w = wrapper(kinds[k], True)
    inst.append(w)
    s = w.__dict__.get(kinds[k][1])
    if s is not None:
        want = want + [s]
    got = inst.statements
    ctx.check("after the instance changed the shortcut still agrees with the full path", len(got) == len(want) and all([g is x for g, x in zip(got, want)]))


def h_ofx(ctx, rs):
    """OFX.statements / securities / signon over symbolic presence of the statement message sets"""
    OFX = models.OFX
    names = ["bankmsgsrsv1", "creditcardmsgsrsv1", "invstmtmsgsrsv1", "seclistmsgsrsv1"] if rs else ["bankmsgsrqv1", "creditcardmsgsrqv1", "invstmtmsgsrqv1"]
    found = ofxgen.kwargs_with(OFX, "signonmsgsrsv1" if rs else "signonmsgsrqv1")
    args, kw = found
    kw = {k: v for k, v in kw.items() if k.startswith("signon")}
    want = []
    for nm in names:
        if ctx.bool("p_" + nm):
            M = OFX.spec[nm].__type__
            if nm.startswith("seclist"):
                sl = ofxgen.class_by_name("SECLIST")
                a, k = ofxgen.base_instance(sl)
                v = ofxgen.build(M, [ofxgen.build(sl, a, k)], {})
            else:
                kinds = MSGSETS[M.__name__]
                mem = [wrapper(kinds[ctx.choice(f"k_{nm}_{i}", list(range(len(kinds))))], True) for i in range(2)]
                v = ofxgen.build(M, mem, {})
                for kind in kinds:
                    pass
                for w in mem:
                    for kind in kinds:
                        if type(w).__name__ == kind[0]:
                            want.append(w.__dict__.get(kind[1]))
            kw[nm] = v
    inst = ofxgen.build(OFX, args, kw)
    got = inst.statements
    ctx.check("OFX.statements lists every statement once", len(got) == len(want))
    if len(got) == len(want):
        ctx.check("OFX.statements returns the objects at the full path in document order", all([g is w for g, w in zip(got, want)]))
    # one more statement wrapper is appended to a present message set; repr() in between (it reads the shortcuts)
    repr(inst)
    for nm in names:
        ms = inst.__dict__.get(nm)
        if ms is not None and not nm.startswith("seclist"):
            kinds = MSGSETS[type(ms).__name__]
            w = wrapper(kinds[0], True)
            ms.append(w)
            # recompute the expected list by the full path
            want = []
            for nm2 in (["bankmsgsrqv1", "creditcardmsgsrqv1", "invstmtmsgsrqv1", "bankmsgsrsv1", "creditcardmsgsrsv1", "invstmtmsgsrsv1"]):
                m2 = inst.__dict__.get(nm2)
                if m2 is not None:
                    for w2 in list.__iter__(m2):
                        for kind in MSGSETS[type(m2).__name__]:
                            if type(w2).__name__ == kind[0] and w2.__dict__.get(kind[1]) is not None:
                                want.append(w2.__dict__.get(kind[1]))
            got2 = inst.statements
            ctx.check("OFX.statements follows the full path after the tree changed", len(got2) == len(want) and all([g is x for g, x in zip(got2, want)]))
            break
    so = inst.signon
    msgs = inst.__dict__.get("signonmsgsrsv1" if rs else "signonmsgsrqv1")
    ctx.check("OFX.signon is the SONRQ/SONRS at the full path", so is msgs.__dict__.get("sonrs" if rs else "sonrq"))
    if rs:
        sec = inst.securities
        sm = inst.__dict__.get("seclistmsgsrsv1")
        wantsec = []
        if sm is not None:
            for child in list.__iter__(sm):
                if type(child).__name__ == "SECLIST":
                    wantsec += list(list.__iter__(child))
        ctx.check("OFX.securities lists every security of every SECLIST", len(sec) == len(wantsec) and all([g is w for g, w in zip(sec, wantsec)]))


SIMPLE = [("STMTRS", "account", "bankacctfrom"), ("STMTRS", "transactions", "banktranlist"), ("STMTRS", "balance", "ledgerbal"),
          ("CCSTMTRS", "account", "ccacctfrom"), ("CCSTMTRS", "transactions", "banktranlist"), ("CCSTMTRS", "balance", "ledgerbal"),
          ("INVSTMTRS", "account", "invacctfrom"), ("INVSTMTRS", "transactions", "invtranlist"), ("INVSTMTRS", "positions", "invposlist"),
          ("INVSTMTRS", "balances", "invbal"), ("STMTTRNRS", "statement", "stmtrs"), ("CCSTMTTRNRS", "statement", "ccstmtrs"),
          ("INVSTMTTRNRS", "statement", "invstmtrs"), ("CCSTMTENDTRNRS", "statement", "ccstmtendrs"), ("PROFTRNRS", "profile", "profrs")]


def h_simple(ctx, k):
    cls, prop, target = SIMPLE[k]
    K = touch_bases(ofxgen.class_by_name(cls))
    found = ofxgen.kwargs_with(K, target)
    args, kw = found
    if not getattr(K.spec[target], "required", False) and not ctx.bool("present"):
        kw2 = {a: v for a, v in kw.items() if a != target}
        if try_construct(K, args, kw2)[0] is not None:
            kw = kw2
    inst = ofxgen.build(K, args, kw)
    ctx.check(f"{cls}.{prop} is the object at the full path", getattr(inst, prop) is inst.__dict__.get(target))


def h_currency(ctx, cls):
    K = ofxgen.class_by_name(cls)
    args, kwargs = ofxgen.base_instance(K)
    kw = {k: v for k, v in kwargs.items() if k not in ("currency", "origcurrency")}
    which = ctx.choice("which", ["none", "currency", "origcurrency"])
    if which != "none":
        kw[which] = ofxgen.value_for(K, which)
    inst = ofxgen.build(K, args, kw)
    cur = inst.__dict__.get(which) if which != "none" else None
    ctx.check("curtype names the currency aggregate present", inst.curtype == (type(cur).__name__ if cur is not None else None))
    ctx.check("cursym is the symbol stored in it", inst.cursym is (cur.__dict__.get("cursym") if cur is not None else None))
    ctx.check("currate is the rate stored in it", inst.currate is (cur.__dict__.get("currate") if cur is not None else None))


def h_sonrs(ctx):
    K = models.SONRS
    found = ofxgen.kwargs_with(K, "fi")
    args, kw = found
    inst = ofxgen.build(K, args, kw)
    fi = inst.__dict__.get("fi")
    ctx.check("SONRS.org / fid are the values stored in FI", inst.org is fi.__dict__.get("org") and inst.fid is fi.__dict__.get("fid"))


HARNESSES = dict(getattr=h_getattr, copy=h_copy, statements=h_statements, ofx=h_ofx, simple=h_simple, currency=h_currency, sonrs=h_sonrs)

META = dict(
    bounds=dict(instances="base instance with up to 2 (quick) / 3 (thorough) optional sub-aggregates of symbolic presence",
                names="up to 24 names declared below the class (depth <= 3) + 2 undefined names + 7 protocol (dunder) names, symbolic",
                statements="0-3 transaction wrappers of symbolic kind, with/without their statement; and 6 (quick) / 12 (thorough) concrete wrappers followed by a symbolic one"),
    models=["instrumented Aggregate.__getattr__ and the property shortcuts", "Types.Element.__get__ (native)", "copy / pickle (native, on path witnesses and symbolic-presence instances)"],
    assumptions=["reference: explicit walk over __dict__ of the present non-repeated descendants (harness/c16.py definers)"],
    observations=["reading a *repeated* child's name directly on its parent (e.g. banktranlist.stmttrn) raises KeyError from Element.__get__; the property speaks of non-repeated descendants, so this is not asserted"],
)

CURRENCY_CLASSES = ["STMTTRN", "STPCHKNUM", "CLOSING", "INVBUY", "INVSELL", "INCOME", "INVEXPENSE", "MARGININTEREST", "REINVEST", "RETOFCAP", "SPLIT"]


def instances(tier, seed):
    out = []
    full = tier != "quick"

    def mk(name, h, params, **opts):
        opts.setdefault("wall_s", 120 if not full else 600)
        out.append(dict(name=name, harness=h, fn=HARNESSES[h], params=params, opts=opts))
    classes = ofxgen.pick_classes(tier, seed)
    nopt = 2 if not full else 3
    for K in classes:
        n = K.__name__
        if K.subaggregates:
            mk(f"getattr[{n}]", "getattr", dict(cls=n, nopt=nopt), max_paths=3000)
        mk(f"copy[{n}]", "copy", dict(cls=n, nopt=min(nopt, 2)), max_paths=200)
    for cls in MSGSETS:
        for n in ((0, 1, 2) if not full else (0, 1, 2, 3)):
            mk(f"statements[{cls},{n}]", "statements", dict(cls=cls, n=n))
        mk(f"statements[{cls},6 fixed + 1]", "statements", dict(cls=cls, n=1, fixed=6 if not full else 12))
    mk("ofx[rs]", "ofx", dict(rs=True), max_paths=5000)
    mk("ofx[rq]", "ofx", dict(rs=False), max_paths=5000)
    for k in range(len(SIMPLE)):
        mk(f"simple[{SIMPLE[k][0]}.{SIMPLE[k][1]}]", "simple", dict(k=k))
    for c in CURRENCY_CLASSES:
        mk(f"currency[{c}]", "currency", dict(cls=c))
    mk("sonrs", "sonrs", {})
    return out
