"""Environment stubs (file system, urllib, OFXTree responses) used by the client / ofxget harnesses.
Stub classes are 'native' for sx: instrumented library code calls their methods directly, with symbolic arguments."""
import io
from sx import rt


@rt.native
class FakePath:
    """pathlib.Path stand-in over a FakeFS"""

    def __init__(self, fs, parts):
        self.fs, self.parts = fs, tuple(parts)

    def __truediv__(self, other):
        return FakePath(self.fs, self.parts + (other,))

    def key(self):
        return "/".join([str(p) if not isinstance(p, rt.Sym) else "<sym>" for p in self.parts])

    def exists(self):
        self.fs.log.append(("exists", self.key()))
        return self.fs.exists(self)

    def mkdir(self, parents=False, exist_ok=False):
        self.fs.log.append(("mkdir", self.key()))

    def __fspath__(self):
        return "/fake/" + self.key()

    def __str__(self):
        return "/fake/" + self.key()

    def __repr__(self):
        return f"FakePath({self.key()})"

    def with_suffix(self, sfx):
        name = self.parts[-1]
        stem = name[:name.rfind(".")] if "." in name[1:] else name      # pathlib: the last suffix is replaced
        return FakePath(self.fs, self.parts[:-1] + (stem + sfx,))

    def with_name(self, name):
        return FakePath(self.fs, self.parts[:-1] + (name,))

    @property
    def parent(self):
        return FakePath(self.fs, self.parts[:-1])

    @property
    def name(self):
        return self.parts[-1]


@rt.native
class FakeFile:
    def __init__(self, fs, path, mode):
        self.fs, self.path, self.mode = fs, path, mode

    def __enter__(self):
        return self

    def __exit__(self, *a):
        self.fs.log.append(("close", self.path.key(), self.mode))
        return False

    def read(self):
        self.fs.log.append(("read", self.path.key()))
        return self.fs.files[self.path.key()]

    def write(self, data):
        self.fs.log.append(("write", self.path.key(), data))
        self.fs.files[self.path.key()] = data
        return 0

    def close(self):
        self.fs.log.append(("close", self.path.key(), self.mode))


@rt.native
class FakeFS:
    """files: key -> content object (any python value standing for the bytes); log: effect trace"""

    def __init__(self, log):
        self.files = {}
        self.log = log
        self.exists_override = None
        self.fail = None        # fault injection: "write" (opening a file for writing fails: disk full, quota, read-only), "replace"

    def exists(self, path):
        return path.key() in self.files

    def open(self, path, mode="r", *a, **k):
        if not isinstance(path, FakePath):
            raise OSError("unexpected real path " + str(path))
        self.log.append(("open", path.key(), mode))
        if "w" in mode and self.fail == "write":
            raise OSError(28, "No space left on device")
        if "w" in mode:
            self.files[path.key()] = TRUNCATED
        elif path.key() not in self.files:
            raise FileNotFoundError(path.key())
        return FakeFile(self, path, mode)

    def replace(self, src, dst):
        self.log.append(("replace", src.key(), dst.key()))
        if self.fail == "replace":
            raise PermissionError(13, "Permission denied")
        self.files[dst.key()] = self.files.pop(src.key())

    def remove(self, p):
        self.log.append(("remove", p.key()))
        self.files.pop(p.key(), None)


TRUNCATED = "<truncated: empty file>"


@rt.native
class FakeResponse:
    """a BytesIO-like response object carrying an opaque payload"""

    def __init__(self, payload, log=None, name="resp"):
        self.payload, self.log, self.name = payload, log, name

    def read(self, *a):
        return self.payload

    def seek(self, n, *a):
        if self.log is not None:
            self.log.append(("seek", self.name))
        return 0

    def __enter__(self):
        return self

    def __exit__(self, *a):
        return False


@rt.native
class FakeNet:
    """urllib.request stand-ins: records every opener built and every request opened"""

    def __init__(self, log, responder):
        self.log, self.responder = log, responder

    def HTTPCookieProcessor(self, jar=None):
        return ("cookieproc", jar)

    def build_opener(self, *handlers):
        net = self
        self.log.append(("build_opener", handlers))

        class Opener:
            def open(self_, req, timeout=None):
                net.log.append(("POST", req, handlers, timeout))
                return FakeResponse(net.responder(req))
        rt.NATIVE_TYPES.add(Opener)
        return Opener()

    def Request(self, url, data=None, headers=None, method=None, **kw):
        return dict(url=url, data=data, headers=dict(headers or {}), method=method)
