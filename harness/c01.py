"""C01 - serialize-then-parse returns the same model, for every class and wire form.

Decided compositionally (DESIGN section 3 C01): structure lemma (model -> element tree -> model, per class),
value lemma (C10), wire lemma (element tree -> bytes -> element tree, harness/wire.py)."""
import xml.etree.ElementTree as ET
from ofxtools import Types
from ofxtools.models.base import Aggregate
import ofxgen
from harness.common import try_construct, try_convert, sym_value, same_model, count_unknown
from harness import wire

PID = "C01"


def h_structure(ctx, cls, nopt, nmem, nsym):
    """base instance + up to nopt optional children (symbolic presence) + up to nmem list members whose attribute
    is a symbolic choice (so their order is symbolic) + up to nsym leaf elements with symbolic values"""
    K = ofxgen.class_by_name(cls)
    args, kwargs = ofxgen.base_instance(K)
    kw = dict(kwargs)
    spec = K.spec_no_listaggregates
    # optional children with symbolic presence
    n = 0
    for a, conv in spec.items():
        if n >= nopt:
            break
        if a in kw or not isinstance(conv, Types.Element):
            continue
        trial = dict(kw)
        trial[a] = ofxgen.value_for(K, a)
        if try_construct(K, args, trial)[0] is None:
            continue
        n += 1
        if ctx.bool("p_" + a):
            kw = trial
    # symbolic leaf values
    n = 0
    for a in list(kw):
        conv = spec[a]
        if n >= nsym:
            break
        if isinstance(conv, Types.SubAggregate) or isinstance(conv, (Types.DateTime,)):
            continue
        trial = dict(kw)
        trial[a] = sym_value(ctx, conv, "v_" + a)
        if try_construct(K, args, trial)[0] is not None:
            kw = trial
            n += 1
    # list members: attribute of each member symbolic => all interleavings of member types
    la = ofxgen.list_attrs(K)
    members = list(args)
    if la:
        k = ctx.choice("nmem", list(range(0, nmem + 1)))
        members = []
        for i in range(k):
            a = la[ctx.choice(f"m{i}", list(range(min(len(la), 4))))]
            members.append(ofxgen._member_for(K, a, 0))
    inst, _ = try_construct(K, members, kw)
    if inst is None:
        return              # not a valid instance (custom validation): outside the quantifier
    if ctx.known("C13-nonadjacent-list-attributes-" + cls):
        return
    tree = inst.to_etree()
    back, cats = try_convert(tree)
    ctx.check("the library reads back what it wrote", back is not None)
    if back is None:
        return
    ctx.check("reading back raises no unknown-tag warning", count_unknown(cats) == 0)
    ctx.check("write-then-read returns a structurally equal model (classes, nesting, list order, values)", same_model(ctx, back, inst))


from harness import c09 as _c09
from harness import c10 as _c10

HARNESSES = dict(structure=h_structure, wire=wire.h_wire, wire_long=wire.h_wire_long, dt_write=_c09.h_write, dt_read=_c09.h_read, dt_transition=_c09.h_write_transition,
                 string_value=_c10.h_string_value, string_text=_c10.h_string_text, string_tokens=_c10.h_string_tokens,
                 dec_value=_c10.h_dec_value, dec_long=_c10.h_dec_long, int_value=_c10.h_int_value, oneof=_c10.h_oneof, bool=_c10.h_bool)

META = dict(
    bounds=dict(structure="per class: <= 3 optional children of symbolic presence, <= 3 list members of symbolic type/order, <= 2 symbolic leaf values",
                wire="tree shapes <= 4 nodes, depth <= 3; leaf texts 1-3 characters over the printable alphabet; 6 wire forms x 11 versions",
                values="C10"),
    models=["instrumented to_etree/_listAppend/ungroom/from_etree/_convert/groom/__init__/validate_args",
            "OFXClient.serialize, make_header, utils.indent, tostring_unclosed_elements, ET.tostring(method=html) model",
            "parse_header (BytesIO model), TreeBuilder.feed/_feedmatch/_start/_groomstring over the C-faithful builder model"],
    assumptions=["composition: structure lemma x value lemma (C10) x wire lemma give the end-to-end round trip",
                 "wire lemma trees: no data element carries the name of its enclosing aggregate (true of every declared OFX aggregate; with end tags omitted the notation is ambiguous otherwise)",
                 "side condition checked by reflection on every run: no declared tag, lower-cased, is an HTML void element or script/style"],
)


def pre(tier, seed):
    """finite side condition of the wire lemma: method='html' would drop the end tag of / skip escaping in these"""
    bad = []
    from sx.models.etree import HTML_EMPTY
    for K in ofxgen.all_classes():
        for a in K.spec:
            for t in (a, ofxgen.wire_tag(K, a).lower(), K.__name__.lower()):
                if t in HTML_EMPTY or t in ("script", "style"):
                    bad.append(f"{K.__name__}.{a}")
    from ofxtools import Types
    same = [f"{K.__name__}.{a}" for K in ofxgen.all_classes() for a, c in K.spec.items()
            if isinstance(c, (Types.Element, Types.ListElement)) and ofxgen.wire_tag(K, a).upper() == K.__name__.upper()]
    return dict(observations=[f"side condition (no HTML void / raw-text tag among declared tags): {'holds' if not bad else 'FAILS for ' + ', '.join(sorted(set(bad)))}",
                              f"side condition (no data element named like its enclosing aggregate): {'holds' if not same else 'FAILS for ' + ', '.join(sorted(same))}"])


def instances(tier, seed):
    out = []
    full = tier != "quick"

    def mk(name, h, params, **opts):
        opts.setdefault("wall_s", 120 if not full else 900)
        out.append(dict(name=name, harness=h, fn=HARNESSES[h], params=params, opts=opts))
    for K in ofxgen.pick_classes(tier, seed):
        n = K.__name__
        mk(f"structure[{n}]", "structure", dict(cls=n, nopt=2 if not full else 3, nmem=2 if not full else 3, nsym=1 if not full else 2),
           max_paths=4000 if not full else 40000)
    out += wire.instances_wire(tier, seed, mk)
    # value lemma for date-times (the structure lemma keeps them concrete): written text denotes the instant for every
    # instant x offset, and the written shapes read back to the instant they denote (C09's harnesses)
    # value lemma for the other types (C10's harnesses, a compact parameter set): write - escape as on the wire - read
    for n in (1, 2, 3, 4):
        mk(f"value:string_value[String,3,{n}]", "string_value", dict(cls="String", length=3, n=n))
    for n in (4, 5, 6):
        mk(f"value:string_text[String,3,{n}]", "string_text", dict(cls="String", length=3, n=n), max_paths=100000, wall_s=600)
    mk("value:string_tokens[String,6,2]", "string_tokens", dict(cls="String", length=6, ntok=2))
    for sc, e in ((None, -2), (None, 0), (None, 2), (2, -2)):
        mk(f"value:dec_value[{sc},{e}]", "dec_value", dict(scale=sc, exp=e))
    mk("value:dec_long[None,28,2]", "dec_long", dict(scale=None, ni=28, nf=2), timeout_ms=30000)
    mk("value:int_value[3]", "int_value", dict(length=3))
    mk("value:oneof", "oneof", dict(toks="five", n=2))
    mk("value:bool", "bool", {})
    for kind in ("dt", "time"):
        mk(f"value:dt_write[{kind}]", "dt_write", dict(kind=kind, named=None), timeout_ms=30000, wall_s=600)
        if kind == "dt":
            for zone in ("fold", "season"):
                mk(f"value:dt_transition[{zone}]", "dt_transition", dict(zone=zone), timeout_ms=30000)
        for off in (["+", 1, False, None], ["-", 2, True, None], ["-", 1, True, None], ["+", 2, True, None]):
            mk(f"value:dt_read[{kind},{off}]", "dt_read", dict(kind=kind, has_time=True, has_ms=True, off=off), timeout_ms=20000)
    return out
