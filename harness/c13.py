"""C13 - every child a model class declares can actually be built, written and read back."""
import warnings
import xml.etree.ElementTree as ET
import ofxtools.models
from ofxtools import Types
from ofxtools.models.base import Aggregate, ElementList
import ofxgen
from harness.common import (REJECT, try_construct, try_convert, sym_value, same_value, same_model, find_child,
                            count_unknown)

PID = "C13"


def h_child(ctx, cls, attr):
    """K's base instance extended with child `attr` (symbolic value): build, write under its tag, read back"""
    K = ofxgen.class_by_name(cls)
    for B in reversed(K.__mro__[1:]):            # preceding workload: the base classes' declarations are consulted first
        if isinstance(B, type) and issubclass(B, Aggregate):
            B.spec
            B.subaggregates
    conv = K.spec[attr]
    found = ofxgen.kwargs_with(K, attr)      # reachability witness search (native, sample values)
    ctx.check("an instance holding the declared child can be constructed", found is not None)
    if found is None:
        return
    args, kw = found
    kw = dict(kw)
    value = kw[attr]
    if not isinstance(conv, (Types.SubAggregate, Types.DateTime)):
        sv = sym_value(ctx, conv, "v")
        trial = dict(kw)
        trial[attr] = sv
        inst, _ = try_construct(K, args, trial)
        if inst is not None:
            kw, value = trial, sv
    inst, _ = try_construct(K, args, kw)
    ctx.check("the instance with the child is accepted by the instrumented constructor as well", inst is not None)
    if inst is None:
        return
    tree = inst.to_etree()
    tag = ofxgen.wire_tag(K, attr)
    node = find_child(tree, tag)
    ctx.check("the child is written under its OFX tag", node is not None)
    if node is None:
        return
    if not isinstance(conv, Types.SubAggregate):
        ctx.check("the child's element text is what its converter writes", node.text == conv.unconvert(value))
    back, cats = try_convert(tree)
    ctx.check("the library's own reader accepts what it wrote", back is not None)
    if back is None:
        return
    ctx.check("reading back raises no unknown-tag warning", count_unknown(cats) == 0)
    ctx.check("the child is read back into the same attribute",
              same_model(ctx, back.__dict__.get(attr), value) if isinstance(value, Aggregate) else same_value(ctx, back.__dict__.get(attr), value))


def h_lists(ctx, cls, nmem):
    """one instance with members of every list attribute (1..nmem each, symbolic order among them) together with the
    non-list attributes declared between them; the library's writer must place them where its reader accepts them"""
    K = ofxgen.class_by_name(cls)
    args, kwargs = ofxgen.base_instance(K)
    la = ofxgen.list_attrs(K)
    spec = list(K.spec)
    lo, hi = spec.index(la[0]), spec.index(la[-1])
    kw = dict(kwargs)
    for a in spec[lo:hi + 1]:
        if a not in la and a not in kw and a in K.spec_no_listaggregates and isinstance(K.spec[a], Types.Element):
            trial = dict(kw)
            trial[a] = ofxgen.value_for(K, a)
            if try_construct(K, args, trial)[0] is not None:
                kw = trial
    members = []
    for a in la:
        k = 1 if nmem == 1 else ctx.choice("n_" + a, [1, 2])
        for _ in range(k):
            members.append((a, ofxgen._member_for(K, a, 0)))
    # symbolic rotation of the member order (list members may come in any order)
    r = ctx.choice("rot", list(range(len(members)))) if len(members) > 1 else 0
    members = members[r:] + members[:r]
    inst, _ = try_construct(K, [m for _, m in members], kw)
    for a in la:
        mine = [m for x, m in members if x == a]
        ok_a = (try_construct(K, mine[:1], kwargs)[0] is not None or try_construct(K, list(args) + mine[:1], kwargs)[0] is not None)
        ctx.check("members of each declared list attribute can be passed to the constructor", ok_a)
    if inst is None:
        ctx.check("an instance holding members of all its list attributes can be constructed", ofxgen_has_custom(K))
        return
    tree = inst.to_etree()
    back, cats = try_convert(tree)
    if back is None and ctx.known("C13-nonadjacent-list-attributes-" + cls):
        return
    ctx.check("repeated children are written where the library's own reader accepts them", back is not None)
    if back is None:
        return
    ctx.check("reading back raises no unknown-tag warning", count_unknown(cats) == 0)
    ctx.check("list members are read back in the same order", same_model(ctx, back, inst))


def ofxgen_has_custom(K):
    for b in K.__mro__:
        if b is Aggregate:
            return False
        if "validate_args" in vars(b) or "__init__" in vars(b):
            return True
    return False


def h_mutex_decl(ctx, cls, kind, gi):
    """an exclusivity group must name existing, non-repeated, optional children, and must be able to fire"""
    K = ofxgen.class_by_name(cls)
    args, kwargs = ofxgen.base_instance(K)
    group = ofxgen.all_mutexes(K, kind)[gi]
    spec = K.spec
    single = K.spec_no_listaggregates
    lists = ofxgen.list_attrs(K)
    for m in group:
        ctx.check("every member of an exclusivity group is a declared child", m in spec)
    if ctx.known("C13-mutex-names-repeated-child-" + cls, any([m in lists for m in group])):
        return
    for m in group:
        ctx.check("no member of an exclusivity group is a repeated child", m not in lists)
        if kind == "optionalMutexes" and m in single:
            ctx.check("members of an at-most-one group are optional children", not getattr(single[m], "required", False))
    # the constraint can fire: two members present (repeated members passed positionally) must be rejected
    pres = []
    kw = {k: v for k, v in kwargs.items() if k not in group}
    pos = []
    for m in group:
        if m not in spec:
            continue
        if ctx.bool("p_" + m):
            pres.append(m)
            if m in lists:
                pos.append(ofxgen._member_for(K, m, 0))
            else:
                kw[m] = ofxgen.value_for(K, m)
    if len(pres) >= 2:
        inst, _ = try_construct(K, pos, kw)
        ctx.check("two members of an exclusivity group are never accepted together", inst is None)


def h_childtypes(ctx, cls):
    """the class of every declared sub-aggregate / list member is exported, so the reader can find it by tag"""
    K = ofxgen.class_by_name(cls)
    subs = [(a, c.__type__) for a, c in K.spec.items() if isinstance(c, Types.SubAggregate)]
    a, T = subs[ctx.choice("child", list(range(len(subs))))]
    ctx.check("the class of a declared child is exported under its own name", getattr(ofxtools.models, T.__name__, None) is T)
    root = ET.Element(T.__name__)
    inst, _ = try_convert(root)
    ctx.check("a child element is resolved to the declared class (or refused only for missing required content)",
              inst is None or type(inst) is T)


def h_lookup(ctx, names):
    """a root element with a symbolic tag among `names` is converted by the class of that name"""
    tag = ctx.enum("tag", names)
    root = ET.Element("X")
    root.tag = tag
    inst, _ = try_convert(root)
    if inst is not None:
        ctx.check("the tag resolves to the model class of the same name", type(inst).__name__ == tag)
    else:
        K = getattr(ofxtools.models, tag, None)
        ctx.check("every aggregate class the models package defines is found by its tag", K is not None and K.__name__ == tag)


def h_in_document(ctx, cls):
    """the class at its place in a whole document: built, written from the document root and read back from the root (every level
    of nesting the declarations allow is crossed on the way)"""
    K = ofxgen.class_by_name(cls)
    args, kwargs = ofxgen.base_instance(K)
    kw = dict(kwargs)
    # one data element of the instance is symbolic
    for a, conv in K.spec_no_listaggregates.items():
        if a in kw and isinstance(conv, Types.Element) and not isinstance(conv, (Types.SubAggregate, Types.DateTime, Types.Time, Types.Decimal)):
            trial = dict(kw)
            trial[a] = sym_value(ctx, conv, "v")
            if try_construct(K, args, trial)[0] is not None:
                kw = trial
            break
    inst, _ = try_construct(K, args, kw)
    if inst is None:
        return
    doc = ofxgen.document_holding(inst)
    ctx.check("the class can be placed in a whole document", doc is not None)
    if doc is None:
        return
    back, cats = try_convert(doc.to_etree())
    ctx.check("a whole document holding the class is read back by the library's own reader", back is not None)
    if back is None:
        return
    ctx.check("reading back raises no unknown-tag warning", count_unknown(cats) == 0)
    cur = back
    for P, a, lst, child in ofxgen.chains_from_root()[K]:
        if lst:
            mine = [m for m in list.__iter__(cur) if type(m) is child]
            cur = mine[-1] if mine else None
        else:
            cur = cur.__dict__.get(a)
        if cur is None:
            break
    ctx.check("the class is found at its place in the document that was read back, equal to what was written", cur is not None and same_model(ctx, cur, inst))


HARNESSES = dict(in_document=h_in_document, childtypes=h_childtypes, child=h_child, lists=h_lists, mutex_decl=h_mutex_decl, lookup=h_lookup)

META = dict(
    bounds=dict(classes="every aggregate class exported by ofxtools.models (exhaustive in both tiers)",
                values="one symbolic value per child in the child's bounded domain (strings 2 chars, integers < 10^4, decimals coef < 10^5, instants 1900-2200 at ms)",
                lists="1 (quick) or 1-2 (thorough) members per list attribute, symbolic rotation of their order"),
    models=["instrumented Aggregate.__init__/to_etree/from_etree/_convert/groom/ungroom", "element converters of C10", "warnings.warn"],
    assumptions=["reachability = an accepting path exists from the base instance (found by ofxgen) extended by the child"],
)


def instances(tier, seed):
    out = []
    full = tier != "quick"

    def mk(name, h, params, **opts):
        opts.setdefault("wall_s", 120 if not full else 600)
        opts.setdefault("timeout_ms", 20000)
        out.append(dict(name=name, harness=h, fn=HARNESSES[h], params=params, opts=opts))
    classes = ofxgen.all_classes()
    for K in classes:
        n = K.__name__
        for a, c in K.spec_no_listaggregates.items():
            if isinstance(c, Types.Element):
                mk(f"child[{n}.{a}]", "child", dict(cls=n, attr=a))
        chain = ofxgen.chains_from_root().get(K)
        if chain is not None and (full or len(chain) >= 5 or ofxgen.is_core(K)):
            mk(f"in_document[{n},depth={len(chain)}]", "in_document", dict(cls=n))
        if K.subaggregates:
            mk(f"childtypes[{n}]", "childtypes", dict(cls=n))
        if ofxgen.list_attrs(K):
            mk(f"lists[{n}]", "lists", dict(cls=n, nmem=1 if not full else 2), max_paths=2000)
        for kind in ("optionalMutexes", "requiredMutexes"):
            for gi, g in enumerate(ofxgen.all_mutexes(K, kind)):
                if len(g) <= 5:
                    mk(f"mutex_decl[{n},{kind[:3]},{gi}]", "mutex_decl", dict(cls=n, kind=kind, gi=gi))
    names = sorted(set([c.__name__ for c in classes] + [c.__name__ for c in ofxgen.defined_classes()]))
    for i in range(0, len(names), 40):
        mk(f"lookup[{i}]", "lookup", dict(names=names[i:i + 40]), allow_vacuous=False)
    return out
