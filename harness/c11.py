"""C11 - everything the serializer writes is lexically valid OFX for its declared type."""
import datetime, decimal, re, warnings
from ofxtools import Types, utils
from sx.run import PRINTABLE
from harness import c09
from harness.common import NOWS

PID = "C11"
REFUSE = (ValueError, TypeError, ArithmeticError)
LEX_INT = re.compile(r"[+-]?[0-9]+")
LEX_DEC = re.compile(r"[+-]?[0-9]+([.,][0-9]+)?")


def written(conv, v):
    """text written for v, or None when the value is refused"""
    try:
        with warnings.catch_warnings(record=True):
            warnings.simplefilter("always")
            return conv.unconvert(v)
    except REFUSE:
        return None


def h_decimal(ctx, scale, exp):
    """every finite Decimal (sign x coefficient < 10^6 x the given exponent) that the converter accepts"""
    conv = Types.Decimal(scale)
    v = ctx.decimal("v", 999999, exp)
    try:
        held = conv.convert(v)      # the value an instance would hold after assignment
    except REFUSE:
        return                      # no instance can hold it (e.g. quantize overflow)
    t = written(conv, held)
    ctx.observe("text", t)
    if t is not None:
        ctx.check("Decimal is written in plain notation: optional sign, digits, at most one separator - no exponent",
                  LEX_DEC.fullmatch(t) is not None)


SPECIALS = ["NaN", "-NaN", "sNaN", "Infinity", "-Infinity", "-0", "0E-10", "1E+2", "1.0E+3", "1E-7", "0E+2"]


def h_decimal_special(ctx, scale):
    conv = Types.Decimal(scale)
    s = ctx.choice("s", SPECIALS)
    try:
        held = conv.convert(decimal.Decimal(s))
    except REFUSE:
        return
    t = written(conv, held)
    if t is not None:
        ctx.check("special / exponent-bearing Decimal is refused or written in plain notation", LEX_DEC.fullmatch(t) is not None)


NONDEC = [float("nan"), float("inf"), float("-inf"), (0, (), "n"), (1, (), "F"), 10 ** 30, 1e-9, -0.0, 1e25, True]


def h_decimal_foreign(ctx, scale):
    """values that reach a Decimal element as float / int / tuple (the default overload of convert)"""
    conv = Types.Decimal(scale)
    k = ctx.choice("k", list(range(len(NONDEC))))
    try:
        held = conv.convert(NONDEC[k])
    except REFUSE:
        return
    t = written(conv, held)
    ctx.check("a value assigned as float / int / tuple is refused or written in plain notation", t is None or LEX_DEC.fullmatch(t) is not None)


def h_decimal_text(ctx, scale, n):
    """values that come from reading any accepted text of n characters over digits, sign, separators"""
    conv = Types.Decimal(scale)
    s = ctx.str("s", n, "0-9+\\-.,")
    try:
        held = conv.convert(s)
    except REFUSE:
        return
    t = written(conv, held)
    ctx.observe("text", t)
    if t is not None:
        ctx.check("Decimal read from text is written in plain notation", LEX_DEC.fullmatch(t) is not None)


def h_integer(ctx, length):
    conv = Types.Integer(length)
    v = ctx.int("v", -10 ** 7, 10 ** 7)
    try:
        held = conv.convert(v)
    except REFUSE:
        return
    t = written(conv, held)
    if t is not None:
        ctx.check("Integer is written as an optional sign and decimal digits", LEX_INT.fullmatch(t) is not None)
        if length is not None:
            ctx.check("written non-negative Integer has at most the declared number of digits",
                      ctx.implies(v >= 0, len(t) <= length))


def h_integer_bool(ctx):
    conv = Types.Integer(None)
    b = ctx.choice("b", [True, False])
    try:
        held = conv.convert(b)
    except REFUSE:
        return
    t = written(conv, held)
    if t is not None:
        ctx.check("Integer holding a Python bool is refused or written as digits", LEX_INT.fullmatch(t) is not None)


def h_bool(ctx):
    conv = Types.Bool()
    v = ctx.symbool("v")
    t = written(conv, conv.convert(v))
    ctx.check("Bool is written as Y or N", ctx.any([t == "Y", t == "N"]))


CASE_ODD = [(0x41, 0x5A), (0x61, 0x7A), (0xDF, 0xDF), (0x130, 0x131), (0x17F, 0x17F), (0x1E9E, 0x1E9E), (0x212A, 0x212A), (0xFB00, 0xFB06)]


def h_oneof(ctx):
    toks = ("CHECKING", "SAVINGS", "MONEYMRKT", "CREDITLINE", "CD")
    conv = Types.OneOf(*toks)
    v = ctx.enum("v", list(toks))
    t = written(conv, conv.convert(v))
    ctx.check("enumeration is written as one of its declared tokens", ctx.any([t == k for k in toks]))
    x = ctx.str("x", 2, "A-Z")
    ctx.assume(x != "CD")
    try:
        held = conv.convert(x)
        t2 = written(conv, held)
    except REFUSE:
        t2 = None
    ctx.check("a foreign token is never written", t2 is None)
    # a declared token with one letter replaced by another letter of either case or by one of the characters whose case
    # mapping lands in ASCII (Kelvin sign, long s, dotless / dotted i, sharp s, ligatures): whatever is written is a declared token
    k = ctx.choice("tok", list(range(len(toks))))
    pos = ctx.choice("pos", list(range(len(toks[k]))))
    c = ctx.str("c", 1, CASE_ODD)
    y = toks[k][:pos] + c + toks[k][pos + 1:]
    try:
        held = conv.convert(y)
        t3 = written(conv, held)
    except REFUSE:
        t3 = None
    ctx.check("what is written for a near-token is nothing or a declared token", ctx.any([t3 is None] + [t3 == k2 for k2 in toks]))


def h_string(ctx, cls, length, n):
    conv = getattr(Types, cls)(length)
    v = ctx.str("v", n, PRINTABLE)
    t = written(conv, v)
    if cls == "String":
        ctx.check("bounded String beyond its limit is refused, never written", (t is None) == (n > length))
    if t is not None and cls == "String":
        ctx.check("written bounded String does not exceed its limit", len(t) <= length)
    if cls == "NagString":
        ctx.check("warn-only string is written whole", t == v)


def h_string_tokens(ctx, length, ntok):
    """values that still contain literal entity text: the limit applies to the characters actually written"""
    from harness.c10 import TOKENS_STR
    conv = Types.String(length)
    v = ""
    for i in range(ntok):
        v = v + ctx.choice(f"tok{i}", TOKENS_STR)
    t = written(conv, v)
    ctx.check("bounded String beyond its limit is refused, never written", (t is None) == (len(v) > length))
    if t is not None:
        ctx.check("written bounded String does not exceed its limit", len(t) <= length)
    held = None
    try:
        held = conv.convert(v)
    except REFUSE:
        held = None
    if held is not None:
        t2 = written(conv, held)
        ctx.check("a value held after reading is written within the limit or refused", t2 is None or len(t2) <= length)


def h_wire_escape(ctx, history):
    """the end-tag-less writer: element data on the wire carries no raw '<' and no '&' that does not start an entity - also after
    a long document (`history` distinct leaves written before)"""
    import xml.etree.ElementTree as ET
    from ofxtools import utils
    from harness.c10 import xml_escape
    if history:
        big = ET.Element("OFX")
        for i in range(history):
            ET.SubElement(big, "MEMO" if i % 2 else "NAME").text = "payee %04d & co <%d>" % (i, i)
        utils.tostring_unclosed_elements(big)
    text = ctx.str("a", 1, NOWS) + ctx.str("b", 1, PRINTABLE) + ctx.str("c", 1, NOWS)
    root = ET.Element("OFX")
    ET.SubElement(root, "MEMO").text = text
    out = utils.tostring_unclosed_elements(root)
    ctx.observe("bytes", out)
    want = ("<OFX><MEMO>" + xml_escape(text) + "</OFX>").encode("utf_8")
    ctx.check("on the wire no element data contains a raw '<' or a raw '&' that does not start an entity", out == want)


HARNESSES = dict(wire_escape=h_wire_escape, string_tokens=h_string_tokens, decimal_foreign=h_decimal_foreign, decimal=h_decimal, decimal_special=h_decimal_special, decimal_text=h_decimal_text, integer=h_integer,
                 integer_bool=h_integer_bool, bool=h_bool, oneof=h_oneof, string=h_string, write=c09.h_write)

META = dict(
    bounds=dict(decimals="sign x coefficient < 10^6 x exponent -30..+30 (symbolic), plus 11 special / exponent-bearing literals; texts <= 5 chars over [0-9+-.,]",
                integers="|v| <= 10^7, limits None,1,3,9; Python bools", strings="length <= limit+1, limits 1,2,3",
                datetimes="C09 writer harness (1900-2200, all whole-minute offsets, names 0-3 chars)"),
    models=["decimal.Decimal (quantize, same_quantum, str, format 'f')", "re.fullmatch of the lexical rule through the symbolic regex engine",
            "str(int)", "datetime/strftime (C09)"],
    assumptions=["lexical rules: Y|N ; [+-]?[0-9]+ ; [+-]?[0-9]+([.,][0-9]+)? ; declared token ; C09 date-time form",
                 "per-class layer (to_etree writes each element through its converter; wire escaping) is discharged in C01/C13/C06 harnesses"],
)


def instances(tier, seed):
    out = []
    full = tier != "quick"

    def mk(name, h, params, **opts):
        opts.setdefault("wall_s", 300 if not full else 900)
        out.append(dict(name=name, harness=h, fn=HARNESSES[h], params=params, opts=opts))
    exps = range(-30, 31) if full else [-30, -12, -8, -7, -6, -5, -3, -2, -1, 0, 1, 2, 5, 30]
    for sc in ((None, 2) if not full else (None, 1, 2, 4)):
        for e in exps:
            mk(f"decimal[{sc},{e}]", "decimal", dict(scale=sc, exp=e))
        mk(f"decimal_special[{sc}]", "decimal_special", dict(scale=sc))
        mk(f"decimal_foreign[{sc}]", "decimal_foreign", dict(scale=sc))
    for n in ((1, 2, 3) if not full else (1, 2, 3, 4, 5)):
        mk(f"decimal_text[None,{n}]", "decimal_text", dict(scale=None, n=n), max_paths=200000, wall_s=900)
        if n <= 3 or full:
            mk(f"decimal_text[2,{n}]", "decimal_text", dict(scale=2, n=n), max_paths=200000, wall_s=900)
    for L in (None, 1, 3, 9):
        mk(f"integer[{L}]", "integer", dict(length=L))
    mk("integer_bool", "integer_bool", {})
    mk("bool", "bool", {})
    mk("oneof", "oneof", {})
    for L in (3, 6):
        for ntok in (1, 2):
            mk(f"string_tokens[{L},{ntok}]", "string_tokens", dict(length=L, ntok=ntok))
    for cls in ("String", "NagString"):
        for L in (1, 2, 3):
            for n in range(1, L + 2):
                mk(f"string[{cls},{L},{n}]", "string", dict(cls=cls, length=L, n=n))
    for kind in ("dt", "time"):
        for named in (None, 0, 2):
            mk(f"write:{kind}:name={named}", "write", dict(kind=kind, named=named), timeout_ms=30000)
    mk("wire_escape[history=0]", "wire_escape", dict(history=0))
    mk("wire_escape[history=400]", "wire_escape", dict(history=400 if not full else 2000))
    return out
