"""Per-property harness modules (cNN.py).  Harness functions are themselves instrumented by sx,
so the same code runs symbolically (obligations to the solver) and natively (witness replay)."""
