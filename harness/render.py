"""Reference renderer of OFX wire syntax (independent of the library) for the parser harnesses C02 / C08."""
from harness.wire import SHAPES
from sx.run import PRINTABLE, TAGCHARS
from harness.common import NOWS

WS = [(9, 10), (13, 13), (32, 32)]
DATA_MID = [(0x20, 0x3B), (0x3D, 0x7E), (0xA0, 0xFF), (0x100, 0x100), (0x20AC, 0x20AC), (0x4E2D, 0x4E2D)]   # printable minus '<'
DATA_END = [(0x21, 0x3B), (0x3D, 0x7E), (0xA1, 0xFF), (0x100, 0x100), (0x20AC, 0x20AC), (0x4E2D, 0x4E2D)]   # ... and not blank


def sym_tree(ctx, shape, taglen, datalen, tagset=None, tagprefix=""):
    """nested spec (tag, data | None, children) with symbolic tags and data following the skeleton"""
    counter = [0]

    def mk(children, is_root):
        i = counter[0]
        counter[0] += 1
        if tagset is not None:
            tag = ctx.enum(f"tag{i}", tagset)
        else:
            n = taglen if isinstance(taglen, int) else ctx.choice(f"tl{i}", list(taglen))
            tag = tagprefix + ctx.str(f"tag{i}", n, TAGCHARS)
        data = None
        if not children and not is_root and ctx.bool(f"leaf{i}"):
            n = datalen if isinstance(datalen, int) else ctx.choice(f"dl{i}", list(datalen))
            if n == 1:
                data = ctx.str(f"d{i}", 1, DATA_END)
            else:
                data = ctx.str(f"d{i}a", 1, DATA_END) + (ctx.str(f"d{i}m", n - 2, DATA_MID) if n > 2 else "") + ctx.str(f"d{i}z", 1, DATA_END)
        return (tag, data, [mk(ch, False) for ch in children])
    return mk(SHAPES[shape], True)


def gap(ctx, name, maxlen):
    if maxlen == 0:
        return ""
    n = ctx.choice("g_" + name, list(range(0, maxlen + 1)))
    return ctx.str("gap_" + name, n, WS) if n else ""


def render(ctx, spec, maxgap, allow_cdata, path="r", parent_tag=None):
    """text of the tree under symbolic rendering choices: end tag of data elements present or not, CDATA wrapping,
    white space between tokens"""
    tag, data, kids = spec
    out = "<" + tag + ">"
    if data is not None:
        cd = allow_cdata and ctx.bool("cdata_" + path)
        if cd:
            ctx.assume("&" not in data)
            ctx.assume("]]>" not in data)
            ctx.assume("\n" not in data)
            out = out + "<![CDATA[" + data + "]]>"
            out = out + "</" + tag + ">" + gap(ctx, path + "t", maxgap)
        else:
            out = out + gap(ctx, path + "a", maxgap) + data + gap(ctx, path + "b", maxgap)
            if ctx.bool("end_" + path):
                out = out + "</" + tag + ">" + gap(ctx, path + "t", maxgap)
            elif parent_tag is not None:
                # a data element that omits its end tag inside an aggregate of the same name is indistinguishable
                # from a closed one followed by a missing parent end tag: not a rendering of *one* tree
                ctx.assume(tag != parent_tag)
        return out
    out = out + gap(ctx, path + "i", maxgap)
    k = 0
    for ch in kids:
        out = out + render(ctx, ch, maxgap, allow_cdata, path + str(k), tag)
        k += 1
    out = out + "</" + tag + ">" + gap(ctx, path + "t", maxgap)
    return out


def same_tree(ctx, got, spec):
    """parsed element equals the source tree: tag, trimmed data, children in order"""
    tag, data, kids = spec
    if got is None:
        return False
    if len(got) != len(kids):
        return False
    conds = [got.tag == tag]
    if data is None:
        conds.append(got.text is None)
    else:
        if got.text is None:
            return False
        conds.append(got.text == data)
    for g, k in zip(got, kids):
        conds.append(same_tree(ctx, g, k))
    return ctx.all(conds)
