"""C06 - a composed request says exactly what the caller asked, in every configuration."""
import datetime
from ofxtools import Parser, utils
from ofxtools.Parser import OFXTree
from ofxtools.header import OFXHeaderV1, OFXHeaderV2
from ofxtools.Client import OFXClient, StmtRq, CcStmtRq, InvStmtRq, StmtEndRq, CcStmtEndRq, AUTH_PLACEHOLDER
from sx.models.io import make_source
from harness.common import NOWS
from harness import c09

PID = "C06"
UTC = utils.UTC
V1 = [102, 103, 151, 160]
V2 = [200, 201, 202, 203, 210, 211, 220]
ACCTTYPES = ["CHECKING", "SAVINGS", "MONEYMRKT", "CREDITLINE", "CD"]
from sx.models.dt import FixedTz
D0 = datetime.datetime(2020, 1, 2, 3, 4, 5, 678000, tzinfo=UTC)
D1 = datetime.datetime(2019, 12, 31, 23, 59, 59, 999499, tzinfo=FixedTz(-30, "X"))      # zone between -1h and 0, rounds down
D2 = datetime.datetime(1999, 12, 31, 23, 59, 59, 999500, tzinfo=FixedTz(840, None))      # rounds up across the year
ONE_US = datetime.timedelta(microseconds=1)


def parse_back(data):
    """the library's own reader applied to the composed bytes"""
    t = OFXTree()
    t.parse(make_source(data))
    return t.header, t.convert()


def near(ctx, a, b):
    """two aware datetimes denote the same instant to the millisecond"""
    if a is None or b is None:
        return a is b
    d = (a - b) // ONE_US
    return ctx.all([d >= -500, d <= 500])


def mk_client(ctx, major, sym_ident, fixed=None, sym_org=True):
    if fixed is not None:
        version, pretty, close, has_fi, has_cuid, custom = fixed
    else:
        version = ctx.choice("version", V1 if major == 1 else V2)
        pretty = ctx.bool("prettyprint")
        close = ctx.bool("close_elements") if major == 1 else True
        has_fi = ctx.bool("has_fi")
        has_cuid = ctx.bool("has_clientuid")
        custom = ctx.bool("custom_app")
    kw = dict(version=version, prettyprint=pretty, close_elements=close, bankid="B1", brokerid="BR")
    has_fid = False
    if has_fi:
        kw["org"] = ctx.str("org", 1, NOWS) if (sym_ident and sym_org) else "O&g"
        has_fid = ctx.bool("has_fid") if fixed is None or sym_ident else True
        if has_fid:
            kw["fid"] = "77"
    if has_cuid:
        kw["clientuid"] = "CUID-1"
    if custom:
        kw["appid"], kw["appver"], kw["language"] = "AB", "1", "FRA"
    userid = ctx.str("userid", 1, NOWS) if (fixed is None or sym_ident) else "user"
    client = OFXClient("http://x", userid=userid, **kw)
    return client, dict(version=version, has_fi=has_fi, has_fid=has_fid, has_cuid=has_cuid, custom=custom, userid=userid, org=kw.get("org"), close=close)


def check_envelope(ctx, hdr, ofx, cfg, password, userid):
    ver = cfg["version"]
    ctx.check("header is of the kind the version calls for and carries the configured version",
              type(hdr) is (OFXHeaderV1 if ver < 200 else OFXHeaderV2) and hdr.version == ver)
    so = ofx.signonmsgsrqv1.sonrq
    ctx.check("sign-on carries exactly the supplied user id and password", ctx.all([so.userid == userid, so.userpass == password]))
    ctx.check("sign-on carries the configured language and application id/version",
              ctx.all([so.language == ("FRA" if cfg["custom"] else "ENG"), so.appid == ("AB" if cfg["custom"] else "QWIN"),
                       so.appver == ("1" if cfg["custom"] else "2700")]))
    if cfg["has_fi"]:
        ctx.check("FI is present with the configured ORG and FID", so.fi is not None and ctx.all([so.fi.org == cfg["org"], (so.fi.fid == "77") if cfg["has_fid"] else so.fi.fid is None]))
    else:
        ctx.check("FI is absent when no ORG is configured", so.fi is None)
    want_cuid = cfg["has_cuid"] and ver >= 103
    ctx.check("CLIENTUID is present iff configured and the version is at least 103",
              (so.clientuid == "CUID-1") if want_cuid else so.clientuid is None)


# ---------------------------------------------------------------- statement requests
KINDS = ["stmt", "cc", "inv", "stmtend", "ccend"]


def mk_request(ctx, kind, i, symbolic_dates, detail=2):
    """detail 2: symbolic account id, date presence and flags; 1: symbolic id + one flag; 0: concrete id, one flag"""
    acctid = ctx.str(f"acct{i}", 1, NOWS) if detail >= 1 else "id" + str(i)
    if symbolic_dates:
        tz = ctx.tz(f"tz{i}", -720, 840, None)
        dtstart = ctx.datetime(f"start{i}", 1990, 2100, tz)
    elif detail >= 2:
        dtstart = D1 if ctx.bool(f"hasstart{i}") else None
    else:
        dtstart = D1
    dtend = (D2 if ctx.bool(f"hasend{i}") else None) if detail >= 2 else (None if i % 2 else D2)
    if kind == "stmt":
        at = ctx.enum(f"type{i}", ACCTTYPES) if detail >= 2 else ACCTTYPES[(i * 2 + 1) % 5]
        inc = ctx.bool(f"inctran{i}")
        return StmtRq(acctid=acctid, accttype=at, dtstart=dtstart, dtend=dtend, inctran=inc), dict(acctid=acctid, accttype=at, dtstart=dtstart, dtend=dtend, inctran=inc)
    if kind == "cc":
        inc = ctx.bool(f"inctran{i}")
        return CcStmtRq(acctid=acctid, dtstart=dtstart, dtend=dtend, inctran=inc), dict(acctid=acctid, dtstart=dtstart, dtend=dtend, inctran=inc)
    if kind == "inv":
        inc = ctx.bool(f"inctran{i}")
        if detail >= 2:
            oo, pos, bal = ctx.bool(f"incoo{i}"), ctx.bool(f"incpos{i}"), ctx.bool(f"incbal{i}")
            asof = D0 if (oo != pos) else None
        else:
            oo, pos, bal, asof = (i % 2 == 0), (i % 2 == 1), inc, D0
        return (InvStmtRq(acctid=acctid, dtstart=dtstart, dtend=dtend, dtasof=asof, inctran=inc, incoo=oo, incpos=pos, incbal=bal),
                dict(acctid=acctid, dtstart=dtstart, dtend=dtend, dtasof=asof, inctran=inc, incoo=oo, incpos=pos, incbal=bal))
    if kind == "stmtend":
        at = ctx.enum(f"type{i}", ACCTTYPES) if detail >= 2 else ACCTTYPES[(i * 2) % 5]
        return StmtEndRq(acctid=acctid, accttype=at, dtstart=dtstart, dtend=dtend), dict(acctid=acctid, accttype=at, dtstart=dtstart, dtend=dtend)
    return CcStmtEndRq(acctid=acctid, dtstart=dtstart, dtend=dtend), dict(acctid=acctid, dtstart=dtstart, dtend=dtend)


def wrapper_ok(ctx, kind, w, want):
    """transaction wrapper w (parsed back) carries exactly what request `want` asked"""
    if kind == "stmt":
        rq = w.stmtrq
        conds = [type(w).__name__ == "STMTTRNRQ", rq.bankacctfrom.bankid == "B1", rq.bankacctfrom.acctid == want["acctid"],
                 rq.bankacctfrom.accttype == want["accttype"], rq.inctran.include == want["inctran"],
                 near(ctx, rq.inctran.dtstart, want["dtstart"]), near(ctx, rq.inctran.dtend, want["dtend"])]
    elif kind == "cc":
        rq = w.ccstmtrq
        conds = [type(w).__name__ == "CCSTMTTRNRQ", rq.ccacctfrom.acctid == want["acctid"], rq.inctran.include == want["inctran"],
                 near(ctx, rq.inctran.dtstart, want["dtstart"]), near(ctx, rq.inctran.dtend, want["dtend"])]
    elif kind == "inv":
        rq = w.invstmtrq
        conds = [type(w).__name__ == "INVSTMTTRNRQ", rq.invacctfrom.acctid == want["acctid"], rq.invacctfrom.brokerid == "BR",
                 rq.incoo == want["incoo"], rq.incbal == want["incbal"], rq.incpos.include == want["incpos"],
                 near(ctx, rq.incpos.dtasof, want["dtasof"])]
        if want["inctran"]:
            conds += [rq.inctran is not None and rq.inctran.include is True, near(ctx, rq.inctran.dtstart if rq.inctran is not None else None, want["dtstart"]),
                      near(ctx, rq.inctran.dtend if rq.inctran is not None else None, want["dtend"])]
        else:
            conds += [rq.inctran is None]
    elif kind == "stmtend":
        rq = w.stmtendrq
        conds = [type(w).__name__ == "STMTENDTRNRQ", rq.bankacctfrom.bankid == "B1", rq.bankacctfrom.acctid == want["acctid"],
                 rq.bankacctfrom.accttype == want["accttype"], near(ctx, rq.dtstart, want["dtstart"]), near(ctx, rq.dtend, want["dtend"])]
    else:
        rq = w.ccstmtendrq
        conds = [type(w).__name__ == "CCSTMTENDTRNRQ", rq.ccacctfrom.acctid == want["acctid"], near(ctx, rq.dtstart, want["dtstart"]),
                 near(ctx, rq.dtend, want["dtend"])]
    return ctx.all(conds)


MSGSET_OF = {"stmt": "bankmsgsrqv1", "stmtend": "bankmsgsrqv1", "cc": "creditcardmsgsrqv1", "ccend": "creditcardmsgsrqv1", "inv": "invstmtmsgsrqv1"}
WRAPPER_OF = {"stmt": "STMTTRNRQ", "stmtend": "STMTENDTRNRQ", "cc": "CCSTMTTRNRQ", "ccend": "CCSTMTENDTRNRQ", "inv": "INVSTMTTRNRQ"}


def h_envelope(ctx, major, pretty, close, sym_org=False, versions=None):
    """every version x identity configuration x symbolic credentials, no statement request"""
    version = ctx.choice("version", versions or (V1 if major == 1 else V2))
    client, cfg = mk_client(ctx, major, True, [version, pretty, close, ctx.bool("has_fi"), ctx.bool("has_clientuid"), ctx.bool("custom_app")], sym_org)
    password = ctx.str("password", 1, NOWS)
    data = client.request_statements(password, dryrun=True).read()
    hdr, ofx = parse_back(data)
    check_envelope(ctx, hdr, ofx, cfg, password, cfg["userid"])
    ctx.check("no statement message set without a request", ofx.bankmsgsrqv1 is None and ofx.creditcardmsgsrqv1 is None and ofx.invstmtmsgsrqv1 is None)


def h_statements(ctx, major, kinds, sym_dates, fixed):
    client, cfg = mk_client(ctx, major, False, fixed)
    password = "p&<w"          # symbolic credentials are the envelope harness's subject
    # symbolic order of the request multiset: a rotation of the given kinds
    r = ctx.choice("rot", list(range(len(kinds)))) if len(kinds) > 1 else 0
    kinds = list(kinds[r:]) + list(kinds[:r])
    reqs, wants = [], []
    i = 0
    for k in kinds:
        rq, want = mk_request(ctx, k, i, sym_dates and i == 0, 2 if len(kinds) == 1 else (1 if len(kinds) == 2 or i == 0 else 0))
        reqs.append(rq)
        wants.append((k, want))
        i += 1
    out = client.request_statements(password, *reqs, dryrun=True)
    data = out.read()
    ctx.observe("nbytes", len(data))
    hdr, ofx = parse_back(data)
    check_envelope(ctx, hdr, ofx, cfg, password, cfg["userid"])
    total = 0
    uids = [ofx.signonmsgsrqv1.sonrq.userid][:0]
    for kind in KINDS:
        mine = [w for k, w in wants if k == kind]
        ms = getattr(ofx, MSGSET_OF[kind])
        got = [] if ms is None else [w for w in ms if type(w).__name__ == WRAPPER_OF[kind]]
        total += len(got)
        ctx.check(f"exactly one {WRAPPER_OF[kind]} per requested account, under the right message set", len(got) == len(mine))
        if len(got) == len(mine):
            for w, want in zip(got, mine):
                ctx.check("each wrapper carries its account's identifiers, type, date range and flags, in request order", wrapper_ok(ctx, kind, w, want))
                uids.append(w.trnuid)
    present = [n for n in ("bankmsgsrqv1", "creditcardmsgsrqv1", "invstmtmsgsrqv1") if getattr(ofx, n) is not None]
    ctx.check("no wrapper beyond the requested ones", sum([len(getattr(ofx, n)) for n in present]) == len(reqs))
    ctx.check("transaction ids are pairwise distinct", len(set(uids)) == len(uids))


def h_dates(ctx, major, kind):
    """one request whose start date is a symbolic instant with a symbolic whole-minute offset; everything else concrete"""
    client = OFXClient("http://x", userid="u", version=102 if major == 1 else 203, bankid="B1", brokerid="BR")
    rq, want = mk_request(ctx, kind, 0, True)
    data = client.request_statements("pw", rq, dryrun=True).read()
    hdr, ofx = parse_back(data)
    ms = getattr(ofx, MSGSET_OF[kind])
    ctx.check("the wrapper carries the requested date range as the same instants (any UTC offset)", len(ms) == 1 and wrapper_ok(ctx, kind, ms[0], want))


# ---------------------------------------------------------------- account-info / tax / profile requests
def h_accounts(ctx, major, fixed, sym_date):
    client, cfg = mk_client(ctx, major, False, fixed)
    password = ctx.str("password", 1, NOWS)
    if sym_date:
        tz = ctx.tz("tz", -720, 840, None)
        dt = ctx.datetime("dtacctup", 1990, 2100, tz)
    else:
        dt = ctx.choice("dt", [D1, D2])
    data = client.request_accounts(password, dt, dryrun=True).read()
    hdr, ofx = parse_back(data)
    check_envelope(ctx, hdr, ofx, cfg, password, cfg["userid"])
    ms = ofx.signupmsgsrqv1
    ctx.check("exactly one account-info request", ms is not None and len(ms) == 1 and type(ms[0]).__name__ == "ACCTINFOTRNRQ")
    ctx.check("the account-info request carries the given DTACCTUP", near(ctx, ms[0].acctinforq.dtacctup, dt))


def h_tax(ctx, major, nyears, fixed):
    client, cfg = mk_client(ctx, major, False, fixed)
    password = "p&<w"
    years = [ctx.str(f"y{i}", 4, "0-9") for i in range(nyears)]
    has_acct, has_rec = ctx.bool("has_acctnum"), ctx.bool("has_recid")
    acctnum = ctx.str("acctnum", 1, NOWS) if has_acct else None
    recid = ctx.str("recid", 1, NOWS) if has_rec else None
    if has_acct and ctx.known("C06-tax1099-acctnum-dropped"):
        return
    data = client.request_tax1099(password, *years, acctnum=acctnum, recid=recid, dryrun=True).read()
    hdr, ofx = parse_back(data)
    check_envelope(ctx, hdr, ofx, cfg, password, cfg["userid"])
    ms = ofx.tax1099msgsrqv1
    ctx.check("exactly one tax request", ms is not None and len(ms) == 1)
    rq = ms[0].tax1099rq
    ctx.check("the tax request carries the requested years in order", len(rq) == nyears and ctx.all([rq[i] == int(years[i]) for i in range(nyears)]))
    ctx.check("the tax request carries RECID and ACCTNUM as given", ctx.all([rq.recid == recid, rq.acctnum == acctnum]))


def h_profile(ctx, major, fixed):
    client, cfg = mk_client(ctx, major, False, fixed)
    data = client.request_profile(dryrun=True, persist=False).read() if False else client._request_profile(dryrun=True).read()
    hdr, ofx = parse_back(data)
    check_envelope(ctx, hdr, ofx, cfg, AUTH_PLACEHOLDER, AUTH_PLACEHOLDER)
    ms = ofx.profmsgsrqv1
    ctx.check("exactly one profile request", ms is not None and len(ms) == 1 and type(ms[0]).__name__ == "PROFTRNRQ")


ENTITY_LIKE = ["&#39;", "x&#34;y", "&amp;lt;", "&apos;&nbsp;", "&#x27;"]


def h_entity_texts(ctx, major, close):
    """credentials and account ids that look like character references are data: they come back verbatim"""
    userid = ctx.choice("userid", ENTITY_LIKE)
    password = ctx.choice("password", ENTITY_LIKE)
    acctid = ctx.choice("acctid", ENTITY_LIKE)
    named = ("&amp;", "&lt;", "&gt;", "&nbsp;", "&apos;", "&quot;")
    if ctx.known("C06-entity-text-decoded-at-assignment", any([e in t for t in (userid, password, acctid) for e in named])):
        return
    client = OFXClient("http://x", userid=userid, version=102 if major == 1 else 203, bankid="B1", close_elements=close, org=acctid, fid="77")
    rq = StmtRq(acctid=acctid, accttype="CHECKING")
    data = client.request_statements(password, rq, dryrun=True).read()
    hdr, ofx = parse_back(data)
    so = ofx.signonmsgsrqv1.sonrq
    ctx.check("sign-on carries exactly the supplied user id and password", so.userid == userid and so.userpass == password)
    ctx.check("FI is present with the configured ORG and FID", so.fi.org == acctid)
    ctx.check("each wrapper carries its account's identifiers, type, date range and flags, in request order",
              len(ofx.bankmsgsrqv1) == 1 and ofx.bankmsgsrqv1[0].stmtrq.bankacctfrom.acctid == acctid)


def h_repeated(ctx, major, kind, n, fixed=0):
    """a multiset proper: n requests of one kind that differ at most in their (symbolic) account ids - equal ids give equal requests;
    preceded by `fixed` requests with concrete, distinct ids (request lists longer than the symbolic part alone)"""
    client = OFXClient("http://x", userid="u", version=102 if major == 1 else 203, bankid="B1", brokerid="BR")
    reqs, ids = [], []
    for i in range(fixed + n):
        a = ("F%02d" % i) if i < fixed else ctx.str(f"acct{i - fixed}", 1, "0-2")
        ids.append(a)
        if kind == "stmt":
            reqs.append(StmtRq(acctid=a, accttype="CHECKING", dtstart=D1, dtend=D2))
        elif kind == "cc":
            reqs.append(CcStmtRq(acctid=a, dtstart=D1, dtend=D2))
        elif kind == "inv":
            reqs.append(InvStmtRq(acctid=a, dtstart=D1, dtend=D2))
        elif kind == "stmtend":
            reqs.append(StmtEndRq(acctid=a, accttype="SAVINGS", dtstart=D1, dtend=D2))
        else:
            reqs.append(CcStmtEndRq(acctid=a, dtstart=D1, dtend=D2))
    data = client.request_statements("pw", *reqs, dryrun=True).read()
    hdr, ofx = parse_back(data)
    ms = getattr(ofx, MSGSET_OF[kind])
    got = [] if ms is None else [w for w in ms if type(w).__name__ == WRAPPER_OF[kind]]
    ctx.check(f"exactly one {WRAPPER_OF[kind]} per requested account, under the right message set", len(got) == fixed + n)
    if len(got) != fixed + n:
        return
    inner = {"stmt": lambda w: w.stmtrq.bankacctfrom.acctid, "cc": lambda w: w.ccstmtrq.ccacctfrom.acctid, "inv": lambda w: w.invstmtrq.invacctfrom.acctid,
             "stmtend": lambda w: w.stmtendrq.bankacctfrom.acctid, "ccend": lambda w: w.ccstmtendrq.ccacctfrom.acctid}[kind]
    ctx.check("each wrapper carries its account's identifiers, type, date range and flags, in request order", ctx.all([inner(w) == a for w, a in zip(got, ids)]))
    ctx.check("transaction ids are pairwise distinct", len(set([w.trnuid for w in got])) == fixed + n)


def h_unclosed_v2(ctx):
    version = ctx.choice("version", V2)
    pretty = ctx.bool("prettyprint")
    refused = False
    try:
        OFXClient("http://x", version=version, prettyprint=pretty, close_elements=False)
    except ValueError:
        refused = True
    ctx.check("versions 2xx refuse to omit end tags (constructor)", refused)
    c = OFXClient("http://x", version=version, prettyprint=pretty)
    refused = False
    try:
        c._request_profile(dryrun=True, close_elements=False)
    except ValueError:
        refused = True
    ctx.check("versions 2xx refuse to omit end tags (per-request override)", refused)


HARNESSES = dict(repeated=h_repeated, entity_texts=h_entity_texts, envelope=h_envelope, statements=h_statements, dates=h_dates, accounts=h_accounts, tax=h_tax, profile=h_profile, unclosed_v2=h_unclosed_v2)

META = dict(
    bounds=dict(configurations="every supported version x pretty x close_elements x presence of ORG/FID, CLIENTUID, custom APPID/APPVER/LANGUAGE",
                requests="2 (quick) / 3 (thorough) requests of one kind whose symbolic account ids may coincide (equal requests); 0-3 statement requests: kinds given per instance (all 5 kinds and their pairs / triples), symbolic rotation of their order, "
                         "symbolic 1-character account ids over the printable alphabet, symbolic account type, symbolic presence of dates and flags; "
                         "the first request's start date is a symbolic instant 1990-2100 with a symbolic whole-minute UTC offset",
                credentials="user id 1 and password 2 symbolic characters over the printable alphabet (incl. & < > quotes, non-ASCII); "
                            "plus credentials / ORG / account ids drawn from texts that look like character references (&#39; &amp;lt; ...)"),
    models=["the whole request path: OFXClient.__init__/request_*/signon/*trnrq builders/wrap_stmtrq dispatch/serialize/make_header/indent/"
            "tostring_unclosed_elements + ET.tostring model; parse back with parse_header/TreeBuilder(model)/from_etree", "uuid4 and the clock run natively (concrete)"],
    assumptions=["read-back uses the library's own parser and converter, whose fidelity is C01/C02/C03's subject"],
)


def instances(tier, seed):
    import itertools, random
    rnd = random.Random(seed)
    out = []
    full = tier != "quick"

    def mk(name, h, params, **opts):
        opts.setdefault("wall_s", 600 if not full else 2400)
        opts.setdefault("max_paths", 3000 if not full else 30000)
        opts.setdefault("timeout_ms", 20000)
        out.append(dict(name=name, harness=h, fn=HARNESSES[h], params=params, opts=opts))
    for major in (1, 2):
        for pretty in (False, True):
            for close in ((False, True) if major == 1 else (True,)):
                mk(f"envelope[v{major},pretty={pretty},close={close}]", "envelope", dict(major=major, pretty=pretty, close=close, sym_org=full,
                        versions=None if full else ([102, 103] if major == 1 else [203, rnd.choice([200, 201, 202, 210, 211, 220])])), max_paths=60000)

        def fixed():
            v = rnd.choice(V1 if major == 1 else V2)
            return [v, rnd.random() < 0.5, (rnd.random() < 0.5) if major == 1 else True, rnd.random() < 0.5, rnd.random() < 0.5, False]
        for k in KINDS:
            mk(f"statements[v{major},{k}]", "statements", dict(major=major, kinds=[k], sym_dates=False, fixed=fixed()))
            if full:
                mk(f"dates[v{major},{k}]", "dates", dict(major=major, kind=k), timeout_ms=30000, wall_s=3000)
        pairs = list(itertools.combinations_with_replacement(KINDS, 2))
        for p in (pairs if full else rnd.sample(pairs, 4)):
            mk(f"statements[v{major},{'+'.join(p)}]", "statements", dict(major=major, kinds=list(p), sym_dates=False, fixed=fixed()))
        triples = list(itertools.combinations_with_replacement(KINDS, 3))
        for t in (rnd.sample(triples, 10) if full else rnd.sample(triples, 2)):
            mk(f"statements[v{major},{'+'.join(t)}]", "statements", dict(major=major, kinds=list(t), sym_dates=False, fixed=fixed()))
        mk(f"accounts[v{major}]", "accounts", dict(major=major, fixed=fixed(), sym_date=False))
        if full:
            mk(f"accounts[v{major},symbolic date]", "accounts", dict(major=major, fixed=fixed(), sym_date=True), wall_s=3000, timeout_ms=30000)
        for n in ((1,) if not full else (0, 1, 2)):
            mk(f"tax[v{major},{n}]", "tax", dict(major=major, nyears=n, fixed=fixed()))
        mk(f"profile[v{major}]", "profile", dict(major=major, fixed=fixed()))
    mk("unclosed_v2", "unclosed_v2", {})
    for major in (1, 2):
        for k in (KINDS if full else (["stmt", "ccend"] if major == 1 else ["inv", "cc", "stmtend"])):
            mk(f"repeated[v{major},{k}]", "repeated", dict(major=major, kind=k, n=2 if not full else 3))
        mk(f"repeated[v{major},stmt,14 fixed + 1]", "repeated", dict(major=major, kind="stmt", n=1, fixed=14 if not full else 40))
    for major, close in ((1, False), (1, True), (2, True)):
        mk(f"entity_texts[v{major},close={close}]", "entity_texts", dict(major=major, close=close))
    return out
