"""C19 - ofxget requests exactly the configured or discovered accounts and given dates."""
import io, datetime
from collections import ChainMap
from ofxtools import models, utils
from ofxtools.scripts import ofxget
from ofxtools.Client import StmtRq, CcStmtRq, InvStmtRq, StmtEndRq, CcStmtEndRq
from sx import rt
from harness import c09

PID = "C19"
UTC = utils.UTC
BANKTYPES = ["checking", "savings", "moneymrkt", "creditline"]
IDCH = "A-Za-z0-9\\-"
STATUSES = ["AVAIL", "PEND", "ACTIVE"]


@rt.native
class FakeClient:
    """records what ofxget asks the client to do"""

    def __init__(self, log):
        self.log = log

    def request_statements(self, password, *requests, **kw):
        self.log.append(("statements", password, list(requests), kw))
        return io.BytesIO(b"")

    def request_accounts(self, password, dtacctup, **kw):
        self.log.append(("accounts", password, dtacctup, kw))
        return io.BytesIO(b"ACCTINFO")


@rt.native
class FakeTree:
    """stands for OFXTree in extract_acctinfos: parse() is a no-op, convert() returns the prepared response model"""
    response = None

    def parse(self, source, parser=None):
        return None

    def convert(self):
        return FakeTree.response


def base_args(ctx, extra, user_cfg=None):
    """args as merge_config builds them: ChainMap(command line, user configuration section, DEFAULTS)"""
    cli = dict(server="srv", url="http://x", user="u", dryrun=True, version=203)
    cli.update(extra)
    return ChainMap(cli, dict(user_cfg or {}), dict(ofxget.DEFAULTS))


def sym_ids(ctx, name, n):
    k = ctx.choice("n_" + name, list(range(0, n + 1)))
    return [ctx.str(f"{name}{i}", 1, IDCH) for i in range(k)]


def date_arg(ctx, name, symbolic=True):
    """absent, or a YYYYMMDD text with symbolic digits; returns (text, reference instant in us or None)"""
    if not ctx.bool("has_" + name):
        return "", None
    if not symbolic:
        return "20240229", c09.ref_epoch_us(ctx, 2024, 2, 29, 0, 0, 0, 0)
    y, mo, d = ctx.str(name + "_y", 4, "0-9"), ctx.str(name + "_m", 2, "0-9"), ctx.str(name + "_d", 2, "0-9")
    Y, M, D = int(y), int(mo), int(d)
    ctx.assume(ctx.all([Y >= 1900, Y <= 2200, M >= 1, M <= 12, D >= 1, D <= c09.ref_dim(ctx, Y, M)]))
    return y + mo + d, c09.ref_epoch_us(ctx, Y, M, D, 0, 0, 0, 0)


def same_instant(ctx, got, want_us):
    if want_us is None:
        return got is None
    if got is None:
        return False
    return c09.inst_us(got) == want_us


def run_command(ctx, fn, args):
    log = []
    ctx.stub(ofxget, "init_client", lambda a: FakeClient(log))
    fn(args)
    return log


# ---------------------------------------------------------------- configured accounts
def h_stmt(ctx, nids, end, sym_types, sym_date):
    extra = {}
    ids = {}
    for t in BANKTYPES + ["creditcard"] + ([] if end else ["investment"]):
        ids[t] = sym_ids(ctx, t, nids) if t in sym_types else (["fix-" + t] if len(t) % 2 else [])
        if ids[t]:
            extra[t] = list(ids[t])
    ds, us = date_arg(ctx, "dtstart", sym_date == "dtstart")
    de, ue = date_arg(ctx, "dtend", sym_date == "dtend")
    da, ua = ("", None) if end else date_arg(ctx, "dtasof", sym_date == "dtasof")
    extra.update(dtstart=ds, dtend=de, dtasof=da)
    flags = {}
    for f in ([] if end else ["inctran", "incoo", "incpos", "incbal"]):
        flags[f] = ctx.bool(f)
        extra[f] = flags[f]
    args = base_args(ctx, extra)
    log = run_command(ctx, ofxget.request_stmtend if end else ofxget.request_stmt, args)
    ctx.check("exactly one statement request call is made", len(log) == 1 and log[0][0] == "statements")
    if len(log) != 1:
        return
    reqs = log[0][2]
    want = []
    for t in BANKTYPES:
        for a in ids[t]:
            want.append(("bankend" if end else "bank", t.upper(), a))
    for a in ids["creditcard"]:
        want.append(("ccend" if end else "cc", None, a))
    for a in ids.get("investment", []):
        want.append(("inv", None, a))
    ctx.check("one request per configured account - none missing, duplicated or extra", len(reqs) == len(want))
    if len(reqs) != len(want):
        return
    for r, (kind, at, acct) in zip(reqs, want):
        cls = {"bank": StmtRq, "bankend": StmtEndRq, "cc": CcStmtRq, "ccend": CcStmtEndRq, "inv": InvStmtRq}[kind]
        conds = [type(r) is cls, r.acctid == acct, same_instant(ctx, r.dtstart, us), same_instant(ctx, r.dtend, ue)]
        if at is not None:
            conds.append(r.accttype == at)
        if kind in ("bank", "cc"):
            conds.append(r.inctran == flags["inctran"])
        if kind == "inv":
            conds += [r.inctran == flags["inctran"], r.incoo == flags["incoo"], r.incpos == flags["incpos"], r.incbal == flags["incbal"],
                      same_instant(ctx, r.dtasof, ua)]
        ctx.check("each request has its account's type, id, the given dates and include flags", ctx.all(conds))


def h_stmt_wire(ctx, end):
    """the same command down to the bytes: the request the real client serializes, read back by the library's reader, asks for the
    configured accounts - including an account number longer than the 22 characters ACCTID nags about"""
    from ofxtools.Client import OFXClient
    from harness import c06
    seen = []

    def fake_download(self, ofx, **kw):
        seen.append(self.serialize(ofx))
        return io.BytesIO(b"")
    ctx.stub(OFXClient, "download", fake_download)
    long_id = "1234567890123456789012" + ctx.str("tail", 1, IDCH)          # 23 characters
    short_id = ctx.str("short", 1, IDCH)
    which = ctx.choice("long_is", ["checking", "creditcard"] + ([] if end else ["investment"]))
    extra = dict(bankid="B1", brokerid="BR")
    for t in ["checking", "creditcard"] + ([] if end else ["investment"]):
        extra[t] = [long_id if t == which else short_id]
    args = base_args(ctx, extra)
    with_warnings_ignored(ofxget.request_stmtend if end else ofxget.request_stmt, args)
    ctx.check("the request is composed once", len(seen) == 1)
    if len(seen) != 1:
        return
    hdr, ofx = c06.parse_back(seen[0])
    got = {}
    for w in (ofx.bankmsgsrqv1 or []):
        got["checking"] = (w.stmtendrq if end else w.stmtrq).bankacctfrom.acctid
    for w in (ofx.creditcardmsgsrqv1 or []):
        got["creditcard"] = (w.ccstmtendrq if end else w.ccstmtrq).ccacctfrom.acctid
    if not end:
        for w in (ofx.invstmtmsgsrqv1 or []):
            got["investment"] = w.invstmtrq.invacctfrom.acctid
    for t in extra:
        if t in ("bankid", "brokerid"):
            continue
        ctx.check("each request on the wire carries its account's number in full", t in got and got[t] == extra[t][0])


def with_warnings_ignored(f, *a):
    import warnings
    with warnings.catch_warnings():
        warnings.simplefilter("ignore")
        return f(*a)


def h_stmt_model(ctx, end, nbank):
    """same command, but with the real client composing the request: OFXClient.download is stubbed and receives the OFX
    model, which must hold one transaction wrapper per configured account (the same number under two account types are
    two accounts)"""
    from ofxtools.Client import OFXClient
    seen = []

    def fake_download(self, ofx, **kw):
        seen.append(ofx)
        return io.BytesIO(b"")
    ctx.stub(OFXClient, "download", fake_download)
    extra = {}
    want = []
    ids = [ctx.str(f"id{i}", 1, IDCH) for i in range(nbank)]
    types = [BANKTYPES[ctx.choice(f"t{i}", list(range(len(BANKTYPES))))] for i in range(nbank)]
    for a, t in zip(ids, types):
        extra.setdefault(t, []).append(a)
    cc = ctx.str("cc", 1, IDCH)
    extra["creditcard"] = [cc]
    extra["bankid"] = "B1"
    args = base_args(ctx, extra)
    (ofxget.request_stmtend if end else ofxget.request_stmt)(args)
    ctx.check("the request is composed once", len(seen) == 1)
    if len(seen) != 1:
        return
    ofx = seen[0]
    bank = [] if ofx.bankmsgsrqv1 is None else list(ofx.bankmsgsrqv1)
    ctx.check("one bank transaction wrapper per configured bank account", len(bank) == nbank)
    got = []
    for w in bank:
        rq = w.stmtendrq if end else w.stmtrq
        got.append((rq.bankacctfrom.accttype, rq.bankacctfrom.acctid))
    for t in BANKTYPES:
        for a, t2 in zip(ids, types):
            if t2 == t:
                ctx.check("every configured (type, number) pair is requested", ctx.any([ctx.all([g[0] == t.upper(), g[1] == a]) for g in got]) if got else False)
    ccm = ofx.creditcardmsgsrqv1
    ctx.check("the credit-card account is requested once", ccm is not None and len(ccm) == 1)


# ---------------------------------------------------------------- --all: accounts discovered from ACCTINFORS
def mk_response(ctx, n, kinds=None):
    """ACCTINFORS with n entries of symbolic kind (bank / credit card / investment), account type, id and service status"""
    entries = []
    infos = []
    for i in range(n):
        kind = kinds[i] if (kinds and kinds[i]) else ctx.choice(f"kind{i}", ["bank", "cc", "inv"])
        status = ctx.enum(f"status{i}", STATUSES)
        acct = ctx.str(f"acct{i}", 1, IDCH)
        if kind == "bank":
            at = ctx.enum(f"type{i}", ["CHECKING", "SAVINGS", "MONEYMRKT", "CREDITLINE"])
            inf = models.BANKACCTINFO(bankacctfrom=models.BANKACCTFROM(bankid="B1", acctid=acct, accttype=at),
                                      suptxdl=True, xfersrc=False, xferdest=False, svcstatus=status)
        elif kind == "cc":
            at = None
            inf = models.CCACCTINFO(ccacctfrom=models.CCACCTFROM(acctid=acct), suptxdl=True, xfersrc=False, xferdest=False, svcstatus=status)
        else:
            at = None
            inf = models.INVACCTINFO(invacctfrom=models.INVACCTFROM(brokerid="BR", acctid=acct), usproducttype="OTHER",
                                     checking=False, svcstatus=status, optionlevel=None)
        entries.append((kind, at, acct, status))
        infos.append(models.ACCTINFO(inf))
    sonrs = models.SONRS(status=models.STATUS(code=0, severity="INFO"), dtserver=datetime.datetime(2020, 1, 1, tzinfo=UTC), language="ENG")
    rs = models.ACCTINFORS(*infos, dtacctup=datetime.datetime(2020, 1, 1, tzinfo=UTC))
    trnrs = models.ACCTINFOTRNRS(trnuid="1", status=models.STATUS(code=0, severity="INFO"), acctinfors=rs)
    ofx = models.OFX(signonmsgsrsv1=models.SIGNONMSGSRSV1(sonrs=sonrs), signupmsgsrsv1=models.SIGNUPMSGSRSV1(trnrs))
    return ofx, entries


def h_all(ctx, n, end, kinds=None):
    """kinds: optionally fixes the kind of some entries (e.g. two bank accounts separated by an entry of any kind)"""
    ofx, entries = mk_response(ctx, n, kinds)
    FakeTree.response = ofx
    ctx.stub(ofxget, "OFXTree", FakeTree)
    # accounts stored earlier in the user's configuration must not take the place of what the server reports
    stale = {}
    if ctx.bool("stale_accounts_in_user_config"):
        stale = dict(checking=["stale-1"], creditcard=["stale-2"], bankid="OLDBANK")
    args = base_args(ctx, dict(all=True), stale)
    log = run_command(ctx, ofxget.request_stmtend if end else ofxget.request_stmt, args)
    calls = [c for c in log if c[0] == "statements"]
    ctx.check("exactly one statement request call is made", len(calls) == 1)
    if len(calls) != 1:
        return
    reqs = calls[0][2]
    # expected: the ACTIVE entries, grouped the way the command builds its request list
    want = []
    for t in ["CHECKING", "SAVINGS", "MONEYMRKT", "CREDITLINE"]:
        for kind, at, acct, status in entries:
            if kind == "bank" and at == t and status == "ACTIVE":
                want.append((StmtEndRq if end else StmtRq, t, acct))
    for kind, at, acct, status in entries:
        if kind == "cc" and status == "ACTIVE":
            want.append((CcStmtEndRq if end else CcStmtRq, None, acct))
    if not end:
        for kind, at, acct, status in entries:
            if kind == "inv" and status == "ACTIVE":
                want.append((InvStmtRq, None, acct))
    if stale:
        # region of the listed finding: stored accounts of a type for which the response lists no ACTIVE account
        fell_through = not any([k == "bank" and at == "CHECKING" and status == "ACTIVE" for k, at, a, status in entries]) or \
            not any([k == "cc" and status == "ACTIVE" for k, at, a, status in entries])
        if ctx.known("C19-all-falls-through-to-stored-accounts", fell_through):
            return
    ctx.check("exactly the accounts the response lists as ACTIVE are requested - never an inactive one", len(reqs) == len(want))
    if len(reqs) != len(want):
        return
    for r, (cls, at, acct) in zip(reqs, want):
        conds = [type(r) is cls, r.acctid == acct]
        if at is not None:
            conds.append(r.accttype == at)
        ctx.check("each discovered account is requested with its own type and id", ctx.all(conds))


def parse_cli(argv):
    """the real argument parser on a concrete command line (argparse itself runs natively)"""
    return ofxget.make_argparser().parse_args(argv)


rt.NATIVE_FUNCS.add(parse_cli)
ACCT_OPTS = [("-C", "checking", "1001"), ("-S", "savings", "2002"), ("-M", "moneymrkt", "5005"), ("-L", "creditline", "6006"),
             ("-c", "creditcard", "3003"), ("-i", "investment", "4004")]


def h_cli(ctx, end, accts=None):
    """the command line itself: real argument parser -> merge_config (empty user configuration) -> request_stmt / request_stmtend"""
    argv = ["stmtend" if end else "stmt", "--dryrun", "--url", "https://x.example/ofx", "-u", "porky", "--bankid", "111"] + ([] if end else ["--brokerid", "br.example"])
    present = {}
    for opt, name, acct in ACCT_OPTS:
        if end and name == "investment":
            continue
        present[name] = ctx.bool("has_" + name) if (accts is None or name in accts) else False
        if present[name]:
            argv += [opt, acct]
    dates = {}
    # every OFX date-time notation is a legal option value: date only, with time, with milliseconds and a (negative) offset
    forms = [("20070101", datetime.datetime(2007, 1, 1, tzinfo=UTC)), ("20070101120000", datetime.datetime(2007, 1, 1, 12, tzinfo=UTC)),
             ("20070101120000.000[-5:EST]", datetime.datetime(2007, 1, 1, 17, tzinfo=UTC)), ("20070101070000[+5.30]", datetime.datetime(2007, 1, 1, 1, 30, tzinfo=UTC))]
    f = ctx.choice("start_form", list(range(len(forms)))) if accts is None or len(accts) <= 2 else 0
    for opt, name, text, inst in (("-s", "dtstart", forms[f][0], forms[f][1]), ("-e", "dtend", "20071231", datetime.datetime(2007, 12, 31, tzinfo=UTC)),
                                  ("-a", "dtasof", "20071130", datetime.datetime(2007, 11, 30, tzinfo=UTC))):
        if end and name == "dtasof":
            continue
        dates[name] = inst if ctx.bool("has_" + name) else None
        if dates[name] is not None:
            argv += [opt, text]
    flags = dict(inctran=True, incpos=True, incbal=True, incoo=False)
    if not end:
        for opt, name, val in (("--no-transactions", "inctran", False), ("--no-positions", "incpos", False), ("--no-balances", "incbal", False), ("--open-orders", "incoo", True)):
            if ctx.bool("flag_" + name):
                argv.append(opt)
                flags[name] = val
    ns = parse_cli(argv)
    args = ofxget.merge_config(ns, ofxget.UserConfig())
    log = run_command(ctx, ofxget.request_stmtend if end else ofxget.request_stmt, args)
    ctx.check("exactly one statement request call is made", len(log) == 1 and log[0][0] == "statements")
    if len(log) != 1:
        return
    reqs = log[0][2]
    want = [(name, acct) for _, name, acct in ACCT_OPTS if present.get(name)]
    ctx.check("one request per configured account - none missing, duplicated or extra", len(reqs) == len(want))
    if len(reqs) != len(want):
        return
    for r, (name, acct) in zip(reqs, want):
        conds = [r.acctid == acct, r.dtstart == dates["dtstart"], r.dtend == dates["dtend"]]
        if name in BANKTYPES:
            conds += [type(r) is (StmtEndRq if end else StmtRq), r.accttype == name.upper()]
        elif name == "creditcard":
            conds += [type(r) is (CcStmtEndRq if end else CcStmtRq)]
        else:
            conds += [type(r) is InvStmtRq, r.incoo == flags["incoo"], r.incpos == flags["incpos"], r.incbal == flags["incbal"], r.dtasof == dates["dtasof"]]
        if not end:
            conds.append(r.inctran == flags["inctran"])
        ctx.check("each request has its account's type, id, the given dates and include flags", ctx.all(conds))


HARNESSES = dict(stmt_wire=h_stmt_wire, stmt=h_stmt, stmt_model=h_stmt_model, all=h_all, cli=h_cli)

META = dict(
    bounds=dict(configured="0..1 (quick) / 0..2 (thorough) symbolic account ids per account type (6 types), symbolic presence and digits of the three dates, symbolic include flags",
                command_line="real argument parser + merge_config with an empty user configuration: symbolic presence of each account option, each date option and each include flag (--no-transactions --no-positions --no-balances --open-orders)",
                discovered="ACCTINFORS with 1-2 (quick) / 1-3 (thorough) entries of symbolic kind, account type, id and SVCSTATUS"),
    models=["instrumented request_stmt/request_stmtend/_request_acctinfo/_merge_acctinfo/extract_acctinfos/parse_*acctinfos/_acctIsActive/convert_datetime/get_passwd",
            "stubs: init_client -> recording client; OFXTree -> prepared response model (real model instances with symbolic fields)", "collections.ChainMap, itertools.groupby (native)"],
    assumptions=["how a request tuple becomes wire bytes is C06", "one bank id / broker id per response (collapseToSingle)"],
)


def instances(tier, seed):
    out = []
    full = tier != "quick"

    def mk(name, h, params, **opts):
        opts.setdefault("wall_s", 300 if not full else 1500)
        opts.setdefault("max_paths", 20000 if not full else 200000)
        out.append(dict(name=name, harness=h, fn=HARNESSES[h], params=params, opts=opts))
    import random
    rnd = random.Random(seed)
    alltypes = BANKTYPES + ["creditcard", "investment"]
    for end in (False, True):
        if full:
            for sd in ("dtstart", "dtend", "dtasof"):
                mk(f"stmt[end={end},all types,{sd}]", "stmt", dict(nids=2, end=end, sym_types=alltypes, sym_date=sd))
        else:
            for k in range(2):
                st = rnd.sample(alltypes, 3)
                sd = rnd.choice(["dtstart", "dtend"] if end else ["dtstart", "dtend", "dtasof"])
                mk(f"stmt[end={end},{'+'.join(sorted(st))},{sd}]", "stmt", dict(nids=1, end=end, sym_types=st, sym_date=sd))
        for n in ((1, 2) if not full else (1, 2, 3)):
            mk(f"all[{n},end={end}]", "all", dict(n=n, end=end))
        mk(f"stmt_wire[end={end}]", "stmt_wire", dict(end=end))
        mk(f"cli[end={end}]", "cli", dict(end=end, accts=None if full else ["checking", "creditline", "creditcard", "investment"]))
        mk(f"cli[end={end},date notations]", "cli", dict(end=end, accts=["checking", "creditcard"]))
        mk(f"stmt_model[end={end}]", "stmt_model", dict(end=end, nbank=2 if not full else 3))
    # one account per ACCTINFO wrapper, two accounts of one kind separated by an entry of any kind (the order is the server's choice)
    for kinds in (["bank", None, "bank"], ["cc", None, "cc"]):
        mk(f"all[3,{kinds},end=False]", "all", dict(n=3, end=False, kinds=kinds))
    return out
