"""C09 - date-time and time values mean the instant the OFX notation denotes."""
import datetime
from ofxtools import Types, utils
from sx import rt

PID = "C09"
US = 1000000
DAY_US = 86400 * US
PRINT_ASCII = [(0x20, 0x7E)]
REJECT = (ValueError, AssertionError, OverflowError)
UTC = utils.UTC
EPOCH = datetime.datetime(1, 1, 1, tzinfo=UTC)
ONE_US = datetime.timedelta(microseconds=1)


# ---------------------------------------------------------------- reference arithmetic (no library code)
def ref_leap(ctx, y):
    return ctx.all([y % 4 == 0, ctx.any([y % 100 != 0, y % 400 == 0])])


def ref_dim(ctx, y, mo):
    return ctx.ite(mo == 2, ctx.ite(ref_leap(ctx, y), 29, 28),
                   ctx.ite(ctx.any([mo == 4, mo == 6, mo == 9, mo == 11]), 30, 31))


def ref_days(ctx, y, mo, d):
    """days since 0001-01-01 (proleptic Gregorian) by the civil-from-days arithmetic"""
    y2 = ctx.ite(mo <= 2, y - 1, y)
    era = y2 // 400
    yoe = y2 - era * 400
    mp = ctx.ite(mo > 2, mo - 3, mo + 9)
    doy = (153 * mp + 2) // 5 + d - 1
    doe = yoe * 365 + yoe // 4 - yoe // 100 + doy
    return era * 146097 + doe - 306


def ref_epoch_us(ctx, y, mo, d, H, M, S, ms):
    return ((ref_days(ctx, y, mo, d) * 24 + H) * 60 + M) * 60 * US + S * US + ms * 1000


def inst_us(v):
    """instant of an aware datetime in microseconds since 0001-01-01T00:00Z"""
    return (v - EPOCH) // ONE_US


def tod_us(t):
    return ((t.hour * 60 + t.minute) * 60 + t.second) * US + t.microsecond


# ---------------------------------------------------------------- text construction
def build_text(ctx, kind, has_time, has_ms, off):
    """returns (text, fields dict of reference integers, offset minutes (reference), layout dict)"""
    F = {}
    text = ""
    lay = {}
    if kind == "dt":
        ys, mos, ds = ctx.str("y", 4, "0-9"), ctx.str("mo", 2, "0-9"), ctx.str("d", 2, "0-9")
        F["y"], F["mo"], F["d"] = int(ys), int(mos), int(ds)
        text = ys + mos + ds
    if has_time:
        Hs, Ms, Ss = ctx.str("H", 2, "0-9"), ctx.str("M", 2, "0-9"), ctx.str("S", 2, "0-9")
        F["H"], F["M"], F["S"] = int(Hs), int(Ms), int(Ss)
        text = text + Hs + Ms + Ss
    else:
        F["H"], F["M"], F["S"] = 0, 0, 0
    F["ms"] = 0
    if has_ms:
        mss = ctx.str("ms", 3, "0-9")
        F["ms"] = int(mss)
        lay["dot"] = len(text)
        text = text + "." + mss
    lay["fixed_end"] = len(text)
    offmin = 0
    if off is not None:
        sign, hd, mins, name = off
        ohs = ctx.str("oh", hd, "0-9")
        oh = int(ohs)
        lay["lbr"] = len(text)
        text = text + "[" + sign
        lay["sign"] = len(text) - 1 if sign else None
        lay["oh"] = len(text)
        text = text + ohs
        om = 0
        if mins:
            oms = ctx.str("om", 2, "0-9")
            om = int(oms)
            lay["mdot"] = len(text)
            text = text + "." + oms
        F["oh"], F["om"] = oh, om
        if name is not None:
            # long names: two symbolic characters around a fixed middle (the regular expression sees every character either way)
            nm = ctx.str("name", name, PRINT_ASCII) if name <= 4 else \
                ctx.str("name_a", 1, PRINT_ASCII) + "Central European Summer Time, UTC+02:00"[:name - 2] + ctx.str("name_z", 1, PRINT_ASCII)
            lay["name"] = (len(text) + 1, len(text) + 1 + name)
            text = text + ":" + nm
        lay["rbr"] = len(text)
        text = text + "]"
        offmin = oh * 60 + om
        if sign == "-":
            offmin = -offmin
    return text, F, offmin, lay


def assume_valid(ctx, kind, F, off, offmin):
    if kind == "dt":
        ctx.assume(ctx.all([F["y"] >= 1900, F["y"] <= 2200, F["mo"] >= 1, F["mo"] <= 12, F["d"] >= 1,
                            F["d"] <= ref_dim(ctx, F["y"], F["mo"])]))
    ctx.assume(ctx.all([F["H"] <= 23, F["M"] <= 59, F["S"] <= 59]))
    if off is not None:
        ctx.assume(ctx.all([F["om"] <= 59, offmin >= -720, offmin <= 840]))


# ---------------------------------------------------------------- reading
def set_local_zone(tz):
    """the process-local time zone (TZ variable) the application happens to run in; None restores the sandbox's own"""
    import os, time
    if tz is None:
        os.environ.pop("TZ", None)
    else:
        os.environ["TZ"] = tz
    time.tzset()


rt.NATIVE_FUNCS.add(set_local_zone)


def h_read_localzone(ctx, kind, has_time, has_ms, off, tz):
    """reading means the same instant whatever the process-local time zone is"""
    set_local_zone(tz)
    try:
        h_read(ctx, kind, has_time, has_ms, off)
    finally:
        set_local_zone(None)


def h_write_localzone(ctx, kind, named, tz):
    set_local_zone(tz)
    try:
        h_write(ctx, kind, named)
    finally:
        set_local_zone(None)


def h_read(ctx, kind, has_time, has_ms, off):
    text, F, offmin, lay = build_text(ctx, kind, has_time, has_ms, off)
    assume_valid(ctx, kind, F, off, offmin)
    if off is not None and off[0] == "-":
        if ctx.known("C09-negative-zero-hours-offset", ctx.all([F["oh"] == 0, F["om"] != 0])):
            return
    conv = Types.DateTime() if kind == "dt" else Types.Time()
    res = conv.convert(text)
    ctx.observe("result", res)
    ctx.check("result is timezone-aware with zero UTC offset", res.utcoffset() == datetime.timedelta(0))
    if kind == "dt":
        want = ref_epoch_us(ctx, F["y"], F["mo"], F["d"], F["H"], F["M"], F["S"], F["ms"]) - offmin * 60 * US
        ctx.check("converted value is the instant the text denotes", inst_us(res) == want)
    else:
        want = ((F["H"] * 60 + F["M"]) * 60 + F["S"]) * US + F["ms"] * 1000 - offmin * 60 * US
        ctx.check("converted time is the time of day the text denotes (UTC)", tod_us(res) == ctx.floormod(want, DAY_US))


# ---------------------------------------------------------------- rejection of corrupted texts
def _rejects(conv, text):
    try:
        conv.convert(text)
    except REJECT:
        return True
    return False


def h_reject_range(ctx, kind, has_time, has_ms, off, field):
    """one field out of its range, everything else valid"""
    text, F, offmin, lay = build_text(ctx, kind, has_time, has_ms, off)
    conds = []
    if kind == "dt":
        conds += [F["y"] >= 1900, F["y"] <= 2200]
        conds.append(ctx.any([F["mo"] < 1, F["mo"] > 12]) if field == "month" else ctx.all([F["mo"] >= 1, F["mo"] <= 12]))
        if field == "day":
            conds.append(ctx.any([F["d"] < 1, F["d"] > ref_dim(ctx, F["y"], F["mo"])]))
        elif field != "month":
            conds.append(ctx.all([F["d"] >= 1, F["d"] <= ref_dim(ctx, F["y"], F["mo"])]))
    conds.append(F["H"] > 23 if field == "hour" else F["H"] <= 23)
    conds.append(F["M"] > 59 if field == "minute" else F["M"] <= 59)
    conds.append(F["S"] > 59 if field == "second" else F["S"] <= 59)
    if off is not None:
        conds.append(F["om"] <= 59)
        if field == "offset":
            conds.append(ctx.any([offmin < -12 * 60 - 59, offmin > 14 * 60 + 59]))
        else:
            conds += [offmin >= -720, offmin <= 840]
    ctx.assume(ctx.all(conds))
    conv = Types.DateTime() if kind == "dt" else Types.Time()
    ctx.check(f"text with {field} out of range is rejected", _rejects(conv, text))


def h_reject_edit(ctx, kind, has_time, has_ms, off, edit):
    """a valid text with one character inserted / deleted / replaced by a non-digit at a symbolic position"""
    text, F, offmin, lay = build_text(ctx, kind, has_time, has_ms, off)
    assume_valid(ctx, kind, F, off, offmin)
    n = len(text)
    fixed_end = lay["fixed_end"]
    if edit == "insert":
        pos = ctx.choice("pos", list(range(0, fixed_end + 1)))
        c = ctx.str("c", 1, [(0x0A, 0x0A), (0x20, 0x7E)])
        bad = text[:pos] + c + text[pos:]
        if pos == n and ctx.known("C09-trailing-newline-accepted", c == "\n"):
            return
        ctx.check("text with one extra character in its fixed-length part is rejected", _rejects(_conv(kind), bad))
    elif edit == "delete":
        pos = ctx.choice("pos", list(range(0, fixed_end)))
        bad = text[:pos] + text[pos + 1:]
        ctx.check("text with one character missing from its fixed-length part is rejected", _rejects(_conv(kind), bad))
    elif edit == "nondigit":
        # any position of the fixed part: a printable non-digit instead of the digit / separator
        pos = ctx.choice("pos", list(range(0, fixed_end)))
        c = ctx.str("c", 1, [(0x20, 0x2F), (0x3A, 0x7E)])
        if lay.get("dot") == pos:
            ctx.assume(c != ".")
        bad = text[:pos] + c + text[pos + 1:]
        ctx.check("text with a non-digit in its fixed-length part is rejected", _rejects(_conv(kind), bad))
    elif edit == "foreign_digit":
        # any digit of the text (fixed part, offset hours, offset minutes) replaced by a decimal digit of another script
        # (Arabic-Indic, Devanagari, full-width ...: every code point of category Nd outside ASCII); int() and \d accept those
        cand = list(range(0, fixed_end))
        if lay.get("dot") is not None:
            cand.remove(lay["dot"])
        if off is not None:
            cand += list(range(lay["oh"], lay["oh"] + off[1]))
            if lay.get("mdot") is not None:
                cand += [lay["mdot"] + 1, lay["mdot"] + 2]
        pos = ctx.choice("pos", cand)
        c = ctx.str("c", 1, FOREIGN_DIGITS)
        bad = text[:pos] + c + text[pos + 1:]
        ctx.check("text with a non-ASCII decimal digit is rejected", _rejects(_conv(kind), bad))
    elif edit == "letter_in_offset":
        # a letter instead of any character of the offset part outside the zone name
        name_span = lay.get("name")
        cand = [p for p in range(lay["lbr"], n) if not (name_span and name_span[0] - 1 <= p < name_span[1])]
        pos = ctx.choice("pos", cand)
        c = ctx.str("c", 1, "A-Za-z")
        bad = text[:pos] + c + text[pos + 1:]
        if lay.get("mdot") == pos and ctx.known("C09-offset-minutes-separator-wildcard"):
            return
        ctx.check("text with a letter in its offset part is rejected", _rejects(_conv(kind), bad))


def _foreign_digits():
    out = []
    start = None
    for cp in range(0x80, 0x110000 + 1):
        ok = cp < 0x110000 and chr(cp).isdecimal()
        if ok and start is None:
            start = cp
        elif not ok and start is not None:
            out.append((start, cp - 1))
            start = None
    return out


FOREIGN_DIGITS = _foreign_digits()


def _conv(kind):
    return Types.DateTime() if kind == "dt" else Types.Time()


# ---------------------------------------------------------------- writing
def ref_parse_written(ctx, text, kind):
    """independent reader of the canonical output [YYYYMMDD]HHMMSS.XXX[(+|-)h[h][.mm][:name]] -> (fields, offmin)"""
    i = 0
    F = {}
    if kind == "dt":
        F["y"], F["mo"], F["d"] = int(text[0:4]), int(text[4:6]), int(text[6:8])
        i = 8
    F["H"], F["M"], F["S"] = int(text[i:i + 2]), int(text[i + 2:i + 4]), int(text[i + 4:i + 6])
    i += 6
    ok = text[i] == "."
    F["ms"] = int(text[i + 1:i + 4])
    i += 4
    ok = ok and text[i] == "["
    sign = text[i + 1]
    ok = ok and (sign == "+" or sign == "-")
    i += 2
    j = i
    while j < len(text) and text[j].isdigit():
        j += 1
    w = j - i
    ok = ok and w >= 1 and w <= 2
    oh = int(text[i:j])
    om = 0
    i = j
    if text[i] == ".":
        ok = ok and text[i + 1].isdigit() and text[i + 2].isdigit()
        om = int(text[i + 1:i + 3])
        i += 3
    name = None
    if text[i] == ":":
        name = text[i + 1:len(text) - 1]
        i = len(text) - 1
    ok = ok and text[i] == "]" and i == len(text) - 1
    offmin = oh * 60 + om
    if sign == "-":
        offmin = -offmin
    return ok, F, offmin, name


def h_write(ctx, kind, named):
    if named is None:
        nm = None
    else:
        nm = ctx.str("name", named, PRINT_ASCII)
    tz = ctx.tz("tz", -720, 840, nm)
    if kind == "dt":
        v = ctx.datetime("v", 1900, 2200, tz)
        conv = Types.DateTime()
        orig = inst_us(v)
    else:
        v = ctx.time("v", tz)
        conv = Types.Time()
        orig = tod_us(v) - (v.utcoffset() // ONE_US)
    text = conv.unconvert(v)
    ctx.observe("text", text)
    ok, F, offmin, name = ref_parse_written(ctx, text, kind)
    ctx.check("written text has the form [YYYYMMDD]HHMMSS.XXX[(+|-)h[.mm][:name]]", ok)
    rng = [F["H"] <= 23, F["M"] <= 59, F["S"] <= 59, F["ms"] <= 999, offmin >= -720, offmin <= 840]
    if kind == "dt":
        rng += [F["mo"] >= 1, F["mo"] <= 12, F["d"] >= 1, F["d"] <= ref_dim(ctx, F["y"], F["mo"])]
    ctx.check("written fields are in range", ctx.all(rng))
    ctx.check("written offset equals the value's UTC offset", offmin == v.utcoffset() // datetime.timedelta(minutes=1))
    ctx.check("written zone name is the value's", (name == nm) if nm is not None else name is None)
    if kind == "dt":
        denoted = ref_epoch_us(ctx, F["y"], F["mo"], F["d"], F["H"], F["M"], F["S"], F["ms"]) - offmin * 60 * US
        delta = denoted - orig
        ctx.check("written text denotes the original instant rounded to the millisecond (|delta| <= 500us)",
                  ctx.all([delta >= -500, delta <= 500]))
    else:
        denoted = ((F["H"] * 60 + F["M"]) * 60 + F["S"]) * US + F["ms"] * 1000 - offmin * 60 * US
        delta = ctx.floormod(denoted - orig + 500, DAY_US) - 500
        ctx.check("written text denotes the original time of day rounded to the millisecond (mod 24h)",
                  ctx.all([delta >= -500, delta <= 500]))


class SeasonTz(datetime.tzinfo):
    """a zone whose offset and name depend on the date (as zoneinfo / dateutil zones do): one tzinfo object, two offsets"""

    def utcoffset(self, dt):
        if dt is None:
            return datetime.timedelta(minutes=-300)
        return datetime.timedelta(minutes=-240) if (dt.month >= 4 and dt.month <= 10) else datetime.timedelta(minutes=-300)

    def tzname(self, dt):
        if dt is None:
            return "EST"
        return "EDT" if (dt.month >= 4 and dt.month <= 10) else "EST"

    def dst(self, dt):
        return None


def h_write_season(ctx):
    """two values sharing one date-dependent tzinfo object are written one after the other: each text carries its own offset"""
    tz = SeasonTz()
    conv = Types.DateTime()
    for k in range(2):
        v = datetime.datetime(2021, ctx.int(f"month{k}", 1, 12), ctx.int(f"day{k}", 1, 28), 12, 30, 15, 250000, tzinfo=tz)
        text = conv.unconvert(v)
        ctx.observe(f"text{k}", text)
        ok, F, offmin, name = ref_parse_written(ctx, text, "dt")
        summer = ctx.all([v.month >= 4, v.month <= 10])
        ctx.check("written text has the form [YYYYMMDD]HHMMSS.XXX[(+|-)h[.mm][:name]]", ok)
        if summer:
            want_off, want_name = -240, "EDT"
        else:
            want_off, want_name = -300, "EST"
        ctx.check("written offset is the zone's offset at that date", offmin == want_off)
        ctx.check("written zone name is the zone's name at that date", name == want_name)


class FoldTz(SeasonTz):
    """a PEP 495 zone: on 2021-11-07 the wall-clock hour 01:00-02:00 occurs twice, first with -4:00 (fold 0), then with -5:00 (fold 1);
    before that hour the offset is -4:00, after it -5:00 (zoneinfo / dateutil zones behave like this)"""

    def _late(self, dt):
        return dt.hour >= 2 or (dt.hour == 1 and dt.fold == 1)

    def utcoffset(self, dt):
        if dt is None:
            return datetime.timedelta(minutes=-300)
        return datetime.timedelta(minutes=-300) if self._late(dt) else datetime.timedelta(minutes=-240)

    def tzname(self, dt):
        if dt is None:
            return "EST"
        return "EST" if self._late(dt) else "EDT"


def h_write_transition(ctx, zone):
    """values at and around a change of the zone's offset: the written offset is the one of the value itself, also for the
    second occurrence of a repeated hour (fold=1) and for values within half a millisecond of the change"""
    conv = Types.DateTime()
    if zone == "fold":
        tz = FoldTz()
        fold = ctx.choice("fold", [0, 1])
        v = datetime.datetime(2021, 11, 7, ctx.int("hour", 0, 3), ctx.int("minute", 0, 59), ctx.int("second", 0, 59), ctx.int("us", 0, 999999), tzinfo=tz, fold=fold)
        late = ctx.any([v.hour >= 2, ctx.all([v.hour == 1, fold == 1])])
    else:
        tz = SeasonTz()
        # the last second before the offset changes (end of March / end of October)
        summer_end = ctx.bool("october")
        v = datetime.datetime(2021, 10 if summer_end else 3, 31, 23, 59, 59, ctx.int("us", 990000, 999999), tzinfo=tz)
        late = not summer_end
    text = conv.unconvert(v)
    ctx.observe("text", text)
    ok, F, offmin, name = ref_parse_written(ctx, text, "dt")
    ctx.check("written text has the form [YYYYMMDD]HHMMSS.XXX[(+|-)h[.mm][:name]]", ok)
    if zone == "fold":
        want = -300 if late else -240
    else:
        want = -240 if summer_end else -300
    ctx.check("written offset is the value's own offset (repeated hour, last half millisecond before a change)", offmin == want)
    # the written text denotes the value's instant to within half a millisecond
    want_us = inst_us(v.replace(tzinfo=utils.UTC)) - want * 60 * US
    got_us = ref_epoch_us(ctx, F["y"], F["mo"], F["d"], F["H"], F["M"], F["S"], F["ms"]) - offmin * 60 * US
    ctx.check("written text denotes the same instant to within half a millisecond", ctx.all([got_us - want_us <= 500, want_us - got_us <= 500]))


class NoOffsetTz(datetime.tzinfo):
    """a tzinfo that knows no offset: values carrying it are naive by python's definition"""

    def utcoffset(self, dt):
        return None

    def tzname(self, dt):
        return "X"

    def dst(self, dt):
        return None


class ZoneLikeTz(SeasonTz):
    """like zoneinfo / dateutil zones: no offset without a date, so a bare time carrying it is naive"""

    def utcoffset(self, dt):
        if dt is None:
            return None
        return SeasonTz.utcoffset(self, dt)


def h_write_naive(ctx, kind, zone=None):
    tz = None if zone is None else (NoOffsetTz() if zone == "nooffset" else ZoneLikeTz())
    if kind == "dt":
        v = ctx.datetime("v", 1900, 2200, None)
        conv = Types.DateTime()
    else:
        v = ctx.time("v", None)
        conv = Types.Time()
    if tz is not None:
        v = v.replace(tzinfo=tz)
    raised = False
    try:
        conv.unconvert(v)
    except ValueError:
        raised = True
    ctx.check("naive value is refused when written", raised)
    raised = False
    try:
        conv.convert(v)
    except ValueError:
        raised = True
    ctx.check("naive value is refused when assigned", raised)


def h_roundtrip(ctx, kind, named):
    """direct composition convert(unconvert(v)) (thorough tier; queries carry two coupled calendars)"""
    nm = None if named is None else ctx.str("name", named, "A-Z")
    tz = ctx.tz("tz", -720, 840, nm)
    if kind == "dt":
        v = ctx.datetime("v", 1900, 2200, tz)
        conv = Types.DateTime()
    else:
        v = ctx.time("v", tz)
        conv = Types.Time()
    if ctx.known("C09-negative-zero-hours-offset", ctx.all([v.utcoffset() // datetime.timedelta(minutes=1) < 0,
                                                           v.utcoffset() // datetime.timedelta(minutes=1) > -60])):
        return
    text = conv.unconvert(v)
    back = conv.convert(text)
    if kind == "dt":
        delta = inst_us(back) - inst_us(v)
        ctx.check("write-then-read returns the instant to within half a millisecond", ctx.all([delta >= -500, delta <= 500]))
    else:
        delta = ctx.floormod(tod_us(back) - (tod_us(v) - (v.utcoffset() // ONE_US)) + 500, DAY_US) - 500
        ctx.check("write-then-read returns the time of day to within half a millisecond", ctx.all([delta >= -500, delta <= 500]))


def h_gmt_offset(ctx):
    """utils.gmt_offset sign arithmetic over all hours/minutes"""
    h = ctx.int("hours", -12, 14)
    m = ctx.int("minutes", 0, 59)
    td = utils.gmt_offset(h, m)
    want = ctx.ite(h < 0, -(60 * -h + m), 60 * h + m)
    ctx.check("gmt_offset(hours, minutes) is sign(hours) * (|hours|:minutes)", td // datetime.timedelta(minutes=1) == want)


HARNESSES = dict(write_transition=h_write_transition, read_localzone=h_read_localzone, write_localzone=h_write_localzone, write_season=h_write_season, read=h_read, reject_range=h_reject_range, reject_edit=h_reject_edit, write=h_write,
                 write_naive=h_write_naive, roundtrip=h_roundtrip, gmt_offset=h_gmt_offset)

META = dict(
    run_wall_s=dict(thorough=2400),
    bounds=dict(years="1900-2200", offsets="-12:00..+14:00 in whole minutes", zone_names="0-3 printable ASCII characters",
                resolution="microseconds (writer), milliseconds (reader)", edits="one inserted/deleted/substituted character"),
    models=["re (backtracking matcher on the real DT_REGEX/TIME_REGEX)", "int()", "datetime/time/timedelta/tzinfo arithmetic",
            "strftime %Y%m%d%H%M%S", "math.copysign", "f-string integer formatting"],
    assumptions=["reference: proleptic-Gregorian days-from-civil arithmetic in harness/c09.py", "round-half-up or any tie rule accepted (|delta| <= 500us)"],
    observations=["offset minutes 60-99 ([5.75]) are accepted as 5h75m (not an obligation: the property names minute 60 of the time, not of the offset)",
                  "[-:EST] style offsets resolve through utils.TZS (Interactive Brokers workaround); not asserted either way",
                  "seconds == 60 passes the regex and is then refused by datetime (ValueError): counted as rejection"],
)


def _offsets(full):
    out = []
    signs = ["", "+", "-"]
    for s in signs:
        for hd in (1, 2):
            for mins in (False, True):
                for name in ((None, 0, 1, 3) if full else (None,)):
                    out.append((s, hd, mins, name))
    return out


def shapes(tier, seed):
    """notation shapes: (kind, has_time, has_ms, off)"""
    full = tier != "quick"
    out = []
    for kind in ("dt", "time"):
        bases = [(True, False), (True, True)]
        if kind == "dt":
            bases = [(False, False)] + bases
        for has_time, has_ms in bases:
            out.append((kind, has_time, has_ms, None))
            if has_time:
                for off in _offsets(full):
                    out.append((kind, has_time, has_ms, off))
    if not full:
        # quick: every syntactic feature at least once + a seed-rotated extra of the named forms
        core = [s for s in out if s[3] is None or s[3] in (("", 1, False, None), ("+", 2, True, None), ("-", 1, True, None),
                                                          ("-", 2, False, None), ("+", 1, False, None))]
        extra_pool = [(k, True, ms, (s, hd, mins, nm)) for k in ("dt", "time") for ms in (False, True)
                      for s in ("", "+", "-") for hd in (1, 2) for mins in (False, True) for nm in (0, 1, 3)]
        import random
        rnd = random.Random(seed)
        core += rnd.sample(extra_pool, 4)
        return core
    return out


def _nm(shape):
    kind, has_time, has_ms, off = shape
    s = kind + ("+T" if has_time else "") + (".ms" if has_ms else "")
    if off:
        s += "[%s%s%s%s]" % (off[0] or "u", "h" * off[1], ".mm" if off[2] else "", "" if off[3] is None else ":n%d" % off[3])
    return s


def instances(tier, seed):
    out = []

    def mk(name, h, params, **opts):
        opts.setdefault("wall_s", 300 if tier == "quick" else 900)
        opts.setdefault("timeout_ms", 20000)
        out.append(dict(name=name, harness=h, fn=HARNESSES[h], params=params, opts=opts))
    sh = shapes(tier, seed)
    for s in sh:
        kind, has_time, has_ms, off = s
        p = dict(kind=kind, has_time=has_time, has_ms=has_ms, off=list(off) if off else None)
        mk("read:" + _nm(s), "read", p)
    # rejection: range corruptions on representative shapes (all shapes in thorough)
    rej = sh if tier != "quick" else [s for s in sh if s[3] is None or s[3] == ("+", 2, True, None) or s[3] == ("-", 2, False, None)]
    for s in rej:
        kind, has_time, has_ms, off = s
        p = dict(kind=kind, has_time=has_time, has_ms=has_ms, off=list(off) if off else None)
        fields = (["month", "day"] if kind == "dt" else []) + (["hour", "minute", "second"] if has_time else []) + (["offset"] if off and off[1] == 2 else [])
        for f in fields:
            mk(f"reject_range[{f}]:" + _nm(s), "reject_range", dict(p, field=f))
        for e in ("insert", "delete", "nondigit", "foreign_digit") + (("letter_in_offset",) if off else ()):
            mk(f"reject_edit[{e}]:" + _nm(s), "reject_edit", dict(p, edit=e))
    for kind in ("dt", "time"):
        # texts well beyond 32 characters: full form with a long zone name
        mk(f"read:{kind}+T.ms[+hh.mm:n24]", "read", dict(kind=kind, has_time=True, has_ms=True, off=["+", 2, True, 24]))
        mk(f"read:{kind}+T.ms[-h:n12]", "read", dict(kind=kind, has_time=True, has_ms=True, off=["-", 1, False, 12]))
        for named in ((None, 0, 2) if tier == "quick" else (None, 0, 1, 3)):
            mk(f"write:{kind}:name={named}", "write", dict(kind=kind, named=named), timeout_ms=30000)
        mk(f"write_naive:{kind}", "write_naive", dict(kind=kind))
        mk(f"write_naive:{kind}:tzinfo without offset", "write_naive", dict(kind=kind, zone="nooffset"))
        if tier != "quick":
            mk(f"roundtrip:{kind}", "roundtrip", dict(kind=kind, named=None), timeout_ms=60000, wall_s=1200)
    # the process-local time zone (TZ) is ambient state the result must not depend on
    for tzname in (("EST+5", "IST-5:30") if tier == "quick" else ("EST+5", "IST-5:30", "NZST-12", "Europe/London", "America/St_Johns")):
        for kind in ("dt", "time"):
            mk(f"read_localzone[{tzname}]:{kind}+T", "read_localzone", dict(kind=kind, has_time=True, has_ms=False, off=None, tz=tzname))
            mk(f"read_localzone[{tzname}]:{kind}+T.ms[-hh.mm]", "read_localzone", dict(kind=kind, has_time=True, has_ms=True, off=["-", 2, True, None], tz=tzname))
            mk(f"write_localzone[{tzname}]:{kind}", "write_localzone", dict(kind=kind, named=None, tz=tzname), timeout_ms=30000)
    mk("write_naive:time:zone without offset for bare times", "write_naive", dict(kind="time", zone="zonelike"))
    mk("gmt_offset", "gmt_offset", {})
    mk("write_season", "write_season", {}, timeout_ms=30000)
    mk("write_transition[fold]", "write_transition", dict(zone="fold"), timeout_ms=30000)
    mk("write_transition[season]", "write_transition", dict(zone="season"), timeout_ms=30000)
    return out
