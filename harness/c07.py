"""C07 - unknown and vendor-specific tags never change or break the converted result."""
import copy
import xml.etree.ElementTree as ET
from ofxtools import Types
from ofxtools.models.base import Aggregate
import ofxgen
from harness.common import try_convert, same_model, count_unknown
from sx.run import TAGCHARS

PID = "C07"
VENDOR = ["INTU.BID", "X.Y", "A.B.C"]
KINDS = ["unknown_element", "unknown_empty", "unknown_aggregate_with_known_child", "vendor_element", "vendor_aggregate", "unknown_named_like_attribute"]


def attribute_like_names(K):
    """tags that are not children of K but spell a python-level attribute of the class (COUNT, INDEX, SPEC, STATEMENTS ...)"""
    spec = set(K.spec) | set([ofxgen.wire_tag(K, a).lower() for a in K.spec])
    out = []
    for n in dir(K):
        if n.startswith("_") or n in spec or not n.isascii():
            continue
        if all([(c.isalnum() or c in "._") for c in n]) and n.upper() != n.lower():
            out.append(n.upper())
    return sorted(set(out))


def doc_for(K):
    """a valid instance of K with up to two list members and a sub-aggregate where possible"""
    args, kwargs = ofxgen.base_instance(K)
    kwargs = dict(kwargs)
    # children with a groom rename (YIELD, FROM) and up to two further optional children make the document less minimal
    extra = ofxgen.renamed_attrs(K) + [a for a, c in K.spec_no_listaggregates.items() if a not in kwargs and isinstance(c, Types.Element)]
    added = 0
    for a in extra:
        if a in kwargs or added >= 2:
            continue
        trial = dict(kwargs)
        try:
            trial[a] = ofxgen.value_for(K, a)
            ofxgen.build(K, args, trial)
            kwargs = trial
            added += 1
        except Exception:
            pass
    la = ofxgen.list_attrs(K)
    members = list(args)
    if la and len(members) < 2:
        try:
            trial = members + [ofxgen._member_for(K, la[0], 0)]
            ofxgen.build(K, trial, kwargs)
            members = trial
        except Exception:
            pass
    return ofxgen.build(K, members, kwargs)


def containers(tree, maxdepth):
    """the root and its descendant aggregates (nodes with children) down to maxdepth, in document order"""
    out = [(tree, 0)]
    i = 0
    while i < len(out):
        node, d = out[i]
        i += 1
        if d < maxdepth:
            for ch in node:
                if len(ch):
                    out.append((ch, d + 1))
    return [n for n, _ in out]


def make_node(ctx, kind, suffix, enclosing_cls, host):
    if kind.startswith("vendor"):
        tag = ctx.enum("vtag" + suffix, VENDOR)
    elif kind == "unknown_named_like_attribute":
        tag = ctx.enum("atag" + suffix, attribute_like_names(enclosing_cls))
    else:
        tag = ctx.str("utag" + suffix, 2, TAGCHARS)
        names = list(enclosing_cls.spec.keys())
        # differ from every child name of the enclosing class (as written on the wire and after groom renames)
        wire = [ofxgen.wire_tag(enclosing_cls, a) for a in names] + [a.upper() for a in names]
        ctx.assume(ctx.all([tag != w for w in wire if len(w) == 2]))
        ctx.assume("." not in tag)
    node = ET.Element("X")
    node.tag = tag
    if kind in ("unknown_element", "vendor_element", "unknown_named_like_attribute"):
        node.text = ctx.str("text" + suffix, 1, [(0x21, 0x7E)])
    elif kind in ("unknown_aggregate_with_known_child", "vendor_aggregate"):
        if len(host):
            # first child, last child and any child whose tag a groom() override renames (YIELD, FROM)
            cand = sorted(set([0, len(host) - 1] + [i for i, ch in enumerate(host) if isinstance(ch.tag, str) and ch.tag in ("YIELD", "FROM")]))
            k = cand[ctx.choice("inner" + suffix, list(range(len(cand))))]
            node.append(copy.deepcopy(host[k]))      # otherwise-known content (any child of the host) inside the unknown aggregate
        else:
            ET.SubElement(node, "FOO").text = "1"
    return node


def h_insert(ctx, cls, ninsert, maxdepth, kinds=None):
    K = ofxgen.class_by_name(cls)
    inst = doc_for(K)
    clean = inst.to_etree()
    want, _ = try_convert(copy.deepcopy(clean))
    tree = copy.deepcopy(clean)
    expected_warnings = 0
    for k in range(ninsert):
        hosts = containers(tree, maxdepth)
        hosts = [h for h in hosts if getattr(ofxgen.ofxtools.models, h.tag, None) is not None and "." not in h.tag]
        host = hosts[ctx.choice(f"host{k}", list(range(len(hosts))))]
        kind = ctx.choice(f"kind{k}", kinds or KINDS[:5])
        pos = ctx.choice(f"pos{k}", list(range(len(host) + 1)))
        node = make_node(ctx, kind, str(k), getattr(ofxgen.ofxtools.models, host.tag), host)
        host.insert(pos, node)
        if not kind.startswith("vendor"):
            expected_warnings += 1
    before = ET.tostring(tree) if False else None
    got, cats = try_convert(tree)
    ctx.check("a document with unknown / vendor tags inserted is not rejected", got is not None)
    if got is None:
        return
    ctx.check("the converted model equals the conversion of the document without the insertions", same_model(ctx, got, want))
    ctx.check("each unknown (non-vendor) insertion is reported by an UnknownTagWarning", count_unknown(cats) == expected_warnings)


def h_adjacent(ctx, cls):
    """two insertions next to each other in the root aggregate: a vendor node directly followed by any kind of node"""
    K = ofxgen.class_by_name(cls)
    inst = doc_for(K)
    clean = inst.to_etree()
    want, _ = try_convert(copy.deepcopy(clean))
    tree = copy.deepcopy(clean)
    pos = ctx.choice("pos", list(range(len(tree) + 1)))
    kind0 = ctx.choice("kind0", ["vendor_element", "vendor_aggregate"])
    kind1 = ctx.choice("kind1", KINDS[:5])
    first = make_node(ctx, kind0, "0", K, tree)
    second = make_node(ctx, kind1, "1", K, tree)
    tree.insert(pos, first)
    tree.insert(pos + 1, second)
    got, cats = try_convert(tree)
    ctx.check("a document with unknown / vendor tags inserted is not rejected", got is not None)
    if got is None:
        return
    ctx.check("the converted model equals the conversion of the document without the insertions", same_model(ctx, got, want))
    ctx.check("each unknown (non-vendor) insertion is reported by an UnknownTagWarning", count_unknown(cats) == (0 if kind1.startswith("vendor") else 1))


def h_many(ctx, cls, n):
    """n concrete unknown elements among the children of the root (a chatty server), plus one symbolic insertion"""
    K = ofxgen.class_by_name(cls)
    inst = doc_for(K)
    clean = inst.to_etree()
    want, _ = try_convert(copy.deepcopy(clean))
    tree = copy.deepcopy(clean)
    for i in range(n):
        e = ET.Element("ZZ%d" % i)
        if i % 3:
            e.text = "v%d" % i
        tree.insert((i * 5) % (len(tree) + 1), e)
    kind = ctx.choice("kind", KINDS[:5])
    pos = ctx.choice("pos", [0, len(tree) // 2, len(tree)])
    tree.insert(pos, make_node(ctx, kind, "0", K, clean))
    got, cats = try_convert(tree)
    ctx.check("a document with unknown / vendor tags inserted is not rejected", got is not None)
    if got is None:
        return
    ctx.check("the converted model equals the conversion of the document without the insertions", same_model(ctx, got, want))
    ctx.check("each unknown (non-vendor) insertion is reported by an UnknownTagWarning", count_unknown(cats) == n + (0 if kind.startswith("vendor") else 1))


HARNESSES = dict(insert=h_insert, adjacent=h_adjacent, many=h_many)

META = dict(
    bounds=dict(insertions="two adjacent nodes (vendor node + any kind) at every position of the root (quick: core classes; thorough: every class); quick: 1 node at depth <= 1; thorough: 1 node at depth <= 2 for every class and 2 nodes at depth <= 1 for core classes (per-instance budget 6000 paths)",
                tags="unknown tag named like a python attribute of the enclosing class (COUNT, INDEX, SPEC, ...: symbolic choice); unknown tag: 2 symbolic characters over A-Z 0-9 . _ differing from every child name; vendor tags INTU.BID, X.Y, A.B.C",
                kinds=KINDS),
    models=["instrumented from_etree/_convert/update_args/groom (+ MFINFO/STOCKINFO/MAIL overrides)", "copy.deepcopy of element trees (native)",
            "list.index / str.lower on symbolic tags", "warnings.warn"],
    assumptions=["XML and SGML renderings yield the same tree (C02), so insertions are made on the element tree"],
)


def instances(tier, seed):
    out = []
    full = tier != "quick"
    for cn in (["STMTRS", "STMTTRN", "SONRS"] if not full else ["STMTRS", "STMTTRN", "SONRS", "INVSTMTRS", "BANKTRANLIST", "OFX", "SECLIST", "INVPOSLIST"]):
        out.append(dict(name=f"many[{cn},25]", harness="many", fn=h_many, params=dict(cls=cn, n=25 if not full else 120), opts=dict(wall_s=240, max_paths=3000)))
    for K in ofxgen.pick_classes(tier, seed):
        n = K.__name__
        if not full:
            out.append(dict(name=f"insert[{n}]", harness="insert", fn=h_insert, params=dict(cls=n, ninsert=1, maxdepth=1),
                            opts=dict(wall_s=120, max_paths=3000)))
            if ofxgen.is_core(K):
                out.append(dict(name=f"adjacent[{n}]", harness="adjacent", fn=h_adjacent, params=dict(cls=n), opts=dict(wall_s=120, max_paths=3000)))
                out.append(dict(name=f"insert[{n},attribute-like name]", harness="insert", fn=h_insert,
                                params=dict(cls=n, ninsert=1, maxdepth=0, kinds=KINDS[5:]), opts=dict(wall_s=120, max_paths=3000)))
        else:
            out.append(dict(name=f"insert[{n},attribute-like name]", harness="insert", fn=h_insert,
                            params=dict(cls=n, ninsert=1, maxdepth=1, kinds=KINDS[5:]), opts=dict(wall_s=240, max_paths=6000)))
            out.append(dict(name=f"adjacent[{n}]", harness="adjacent", fn=h_adjacent, params=dict(cls=n), opts=dict(wall_s=240, max_paths=6000)))
            # every class: one insertion down to depth 2; core classes additionally two insertions at depth <= 1
            out.append(dict(name=f"insert[{n},1,depth2]", harness="insert", fn=h_insert, params=dict(cls=n, ninsert=1, maxdepth=2),
                            opts=dict(wall_s=300, max_paths=6000)))
            if ofxgen.is_core(K):
                out.append(dict(name=f"insert[{n},2,depth1]", harness="insert", fn=h_insert, params=dict(cls=n, ninsert=2, maxdepth=1),
                                opts=dict(wall_s=240, max_paths=6000)))
    return out
