"""C12 - headers round-trip for every supported version; invalid headers are refused."""
from ofxtools import header as H
from ofxtools.header import OFXHeaderError, OFXHeaderV1, OFXHeaderV2, make_header, parse_header
from sx.models.io import make_source

PID = "C12"
UIDCH = "A-Za-z0-9_\\-"
V2_SUPPORTED = (200, 201, 202, 203, 210, 211, 220)
BODY = "<OFX></OFX>"


def refused(f, *a, **k):
    """True iff f raises the header error; any other outcome (a header object, another exception) is False"""
    try:
        f(*a, **k)
    except OFXHeaderError:
        return True
    return False


def refused_under(ctx, f, *a, **k):
    """refused(), whatever warning filters the application has installed (-W error, PYTHONWARNINGS=ignore, default)"""
    import warnings
    mode = ctx.choice("warnings_filter", ["default", "error", "ignore"])
    with warnings.catch_warnings():
        warnings.simplefilter(mode)
        return refused(f, *a, **k)


def parse_text(text):
    return parse_header(make_source(text.encode("ascii")))


# ---------------------------------------------------------------- generation + round trip
def h_make(ctx, uidlen, sec):
    version = ctx.int("version", -1099, 1099)
    security = ctx.enum("security", ["NONE", "TYPE1", "OTHER"]) if sec else None
    old = ctx.str("old", uidlen, UIDCH)
    new = ctx.str("new", uidlen, UIDCH)
    supported = ctx.any([ctx.all([version >= 100, version <= 199])] + [version == v for v in V2_SUPPORTED])
    bad_sec = sec and security == "OTHER"
    too_long = uidlen > 36
    if not supported or bad_sec or too_long:
        ctx.check("unsupported version / security level / over-long UID is refused with the header error",
                  refused_under(ctx, make_header, version, security=security, oldfileuid=old, newfileuid=new))
        return
    hdr = make_header(version, security=security, oldfileuid=old, newfileuid=new)
    if version < 200:
        ctx.check("1xx versions get the flat-text header", type(hdr) is OFXHeaderV1)
    else:
        ctx.check("2xx versions get the XML-declaration header", type(hdr) is OFXHeaderV2)
    text = str(hdr)
    ctx.observe("text", text)
    if version < 200:
        ctx.check("flat header starts with OFXHEADER:100", text.startswith("OFXHEADER:100\r\n"))
    else:
        ctx.check("v2 header starts with the XML declaration", text.startswith("<?xml "))
    back, body = parse_text(text + BODY)
    ctx.check("generated header parses back to the same kind", type(back) is type(hdr))
    ctx.check("generated header parses back to equal fields",
              ctx.all([back.version == version, back.security == (security if sec else "NONE"), back.oldfileuid == old,
                       back.newfileuid == new, back.ofxheader == (100 if version < 200 else 200)]))
    ctx.check("body is handed over unchanged", body == BODY)


def h_make_str(ctx):
    """version given as text (as the CLI passes it): digits of length 1-4, or a non-number"""
    n = ctx.choice("n", [1, 2, 3, 4])
    vs = ctx.str("v", n, "0-9A-Za-z")
    isnum = ctx.all([ctx.all(["0" <= c, c <= "9"]) for c in vs])
    if not isnum:
        ctx.check("non-numeric version is refused with the header error", refused(make_header, vs))
        return
    v = int(vs)
    supported = ctx.any([ctx.all([v >= 100, v <= 199])] + [v == k for k in V2_SUPPORTED])
    if supported:
        hdr = make_header(vs)
        ctx.check("textual version is converted", hdr.version == v)
    else:
        ctx.check("unsupported textual version is refused with the header error", refused(make_header, vs))


# ---------------------------------------------------------------- corruption of valid header text
V1_FIELDS = [("OFXHEADER", "100"), ("DATA", "OFXSGML"), ("VERSION", "102"), ("SECURITY", "NONE"), ("ENCODING", "USASCII"),
             ("CHARSET", "1252"), ("COMPRESSION", "NONE"), ("OLDFILEUID", "NONE"), ("NEWFILEUID", "NONE")]
V1_DOMAIN = {"OFXHEADER": ["100"], "DATA": ["OFXSGML"], "SECURITY": ["NONE", "TYPE1"], "ENCODING": ["USASCII", "UNICODE", "UTF-8"],
             "CHARSET": ["ISO-8859-1", "1252", "NONE"], "COMPRESSION": ["NONE"]}
V2_FIELDS = [("OFXHEADER", "200"), ("VERSION", "203"), ("SECURITY", "NONE"), ("OLDFILEUID", "NONE"), ("NEWFILEUID", "NONE")]
V2_DOMAIN = {"OFXHEADER": ["200"], "SECURITY": ["NONE", "TYPE1"]}
XMLDECL = '<?xml version="1.0" encoding="UTF-8" standalone="no"?>'


def v1_text(fields):
    return "\r\n".join([k + ":" + v for k, v in fields]) + "\r\n\r\n" + BODY


def v2_text(fields):
    return XMLDECL + "\r\n<?OFX " + " ".join([k + '="' + v + '"' for k, v in fields]) + "?>\r\n" + BODY


def h_corrupt_value(ctx, kind, field, n):
    """one field's value replaced by n symbolic characters outside the field's domain"""
    fields = list(V1_FIELDS if kind == 1 else V2_FIELDS)
    dom = (V1_DOMAIN if kind == 1 else V2_DOMAIN).get(field)
    idx = [k for k, _ in fields].index(field)
    if field == "VERSION":
        val = ctx.str("val", n, "0-9A-Za-z")
        isnum = ctx.all([ctx.all(["0" <= c, c <= "9"]) for c in val])
        if isnum:
            v = int(val)
            if kind == 1:
                ctx.assume(v >= 1000)          # over-long; shorter non-1xx versions in a flat header: see observations
            else:
                ctx.assume(ctx.all([v != k for k in V2_SUPPORTED]))
    elif field in ("OLDFILEUID", "NEWFILEUID"):
        val = ctx.str("val", n, UIDCH)        # n = 37: over-long
    else:
        val = ctx.str("val", n, "A-Z0-9\\-")
        ctx.assume(ctx.all([val != d for d in dom]))
        if field == "OFXHEADER":
            ctx.assume(ctx.all([val != "0" * k + d for d in dom for k in (1, 2)]))    # 0100 is still 100
    fields[idx] = (field, val)
    text = v1_text(fields) if kind == 1 else v2_text(fields)
    ctx.check(f"header with {field} outside its domain is refused with the header error", refused_under(ctx, parse_text, text))


def h_omit(ctx, kind):
    fields = list(V1_FIELDS if kind == 1 else V2_FIELDS)
    mandatory = [i for i, (k, _) in enumerate(fields) if k != "COMPRESSION"]
    i = ctx.choice("i", mandatory)
    del fields[i]
    text = v1_text(fields) if kind == 1 else v2_text(fields)
    ctx.check("header with a mandatory field missing is refused with the header error", refused_under(ctx, parse_text, text))


def h_transpose(ctx, kind):
    fields = list(V1_FIELDS if kind == 1 else V2_FIELDS)
    i = ctx.choice("i", list(range(len(fields) - 1)))
    fields[i], fields[i + 1] = fields[i + 1], fields[i]
    text = v1_text(fields) if kind == 1 else v2_text(fields)
    ctx.check("header with two adjacent fields out of order is refused with the header error", refused_under(ctx, parse_text, text))


def h_valid_tokens(ctx, kind):
    """every declared token of every field is accepted and read back (boundary side of the corruption harness)"""
    fields = list(V1_FIELDS if kind == 1 else V2_FIELDS)
    doms = V1_DOMAIN if kind == 1 else V2_DOMAIN
    names = [k for k in doms if len(doms[k]) > 1]
    f = ctx.choice("f", names)
    tok = ctx.enum("tok", doms[f])
    idx = [k for k, _ in fields].index(f)
    fields[idx] = (f, tok)
    text = v1_text(fields) if kind == 1 else v2_text(fields)
    hdr, body = parse_text(text)
    ctx.check("declared token is accepted and read back", getattr(hdr, f.lower()) == tok)


HARNESSES = dict(make=h_make, make_str=h_make_str, corrupt_value=h_corrupt_value, omit=h_omit, transpose=h_transpose,
                 valid_tokens=h_valid_tokens)

META = dict(
    bounds=dict(version="-1099..1099 (int) and 1-4 character texts", uids="1-3, 36 and 37 characters over [A-Za-z0-9_-]",
                corruption="one field value replaced (1-4 symbolic chars; 37 for UIDs), one field omitted, two adjacent fields swapped"),
    models=["re (real OFXHeaderV1/V2/XML patterns)", "io.BytesIO", "bytes.decode/str.encode ascii", "str.join/format", "int()/str()"],
    assumptions=["COMPRESSION is optional in the implementation's pattern and is not counted as mandatory"],
    observations=["a flat (v1) header whose VERSION is a 1-3 digit number outside 1xx (e.g. VERSION:203 or VERSION:5) is accepted as OFXHeaderV1 - not asserted either way"],
)


def instances(tier, seed):
    out = []
    full = tier != "quick"

    def mk(name, h, params, **opts):
        opts.setdefault("wall_s", 300 if not full else 900)
        out.append(dict(name=name, harness=h, fn=HARNESSES[h], params=params, opts=opts))
    for n in ((1, 3) if not full else (1, 2, 3, 36, 37)):
        for sec in (False, True):
            mk(f"make[uid={n},sec={sec}]", "make", dict(uidlen=n, sec=sec), wall_s=600)
    if not full:
        mk("make[uid=37,sec=False]", "make", dict(uidlen=37, sec=False), wall_s=600)
        mk("make[uid=36,sec=False]", "make", dict(uidlen=36, sec=False), wall_s=600)
    mk("make_str", "make_str", {})
    import random
    rnd = random.Random(seed)
    for kind, fields, doms in ((1, V1_FIELDS, V1_DOMAIN), (2, V2_FIELDS, V2_DOMAIN)):
        names = [k for k, _ in fields]
        pick = names
        for f in pick:
            if f in ("OLDFILEUID", "NEWFILEUID"):
                mk(f"corrupt_value[v{kind},{f},37]", "corrupt_value", dict(kind=kind, field=f, n=37))
            else:
                for n in ((1, 4) if not full else (1, 2, 3, 4)):
                    mk(f"corrupt_value[v{kind},{f},{n}]", "corrupt_value", dict(kind=kind, field=f, n=n), max_paths=100000)
        mk(f"omit[v{kind}]", "omit", dict(kind=kind))
        mk(f"transpose[v{kind}]", "transpose", dict(kind=kind))
        mk(f"valid_tokens[v{kind}]", "valid_tokens", dict(kind=kind))
    return out
