"""C15 - the cached FI profile is always whole, the newest, and from the right server."""
import datetime
from ofxtools import Client, config, utils
from ofxtools.Client import OFXClient
from sx import rt
from harness.envstubs import FakeFS, FakePath, FakeResponse, TRUNCATED
from sx.instrument import optimized_copy

PID = "C15"
BEHAVIOURS = ["profile", "uptodate", "error_status", "garbage", "transport_error"]


@rt.native
class Obj:
    def __init__(self, **k):
        self.__dict__.update(k)


@rt.native
class Profile:
    """stands for the bytes of one complete PROFRS document: server of origin + DTPROFUP (a date-time, possibly symbolic)"""

    def __init__(self, server, date, tag):
        self.server, self.date, self.tag = server, date, tag

    def __repr__(self):
        return f"Profile({self.server},{self.tag})"


@rt.native
class FakeTree:
    """OFXTree stand-in: parse() remembers the source; convert() yields the model view of that source"""

    def parse(self, source, parser=None):
        payload = source.payload if isinstance(source, FakeResponse) else source
        if payload == "GARBAGE" or payload is TRUNCATED or payload is None:
            raise SyntaxError("not OFX")
        self.src = payload

    def convert(self):
        p = self.src
        if isinstance(p, Profile) and p.tag == "warns":
            # a valid profile carrying a tag the library does not know, read by an application that runs with warnings as errors
            from ofxtools.models.base import UnknownTagWarning
            raise UnknownTagWarning("unknown tag in cached profile")
        if isinstance(p, Profile):
            return Obj(profmsgsrsv1=[Obj(status=Obj(code=0), profrs=Obj(dtprofup=p.date))])
        if p == "UPTODATE":
            return Obj(profmsgsrsv1=[Obj(status=Obj(code=1))])
        if isinstance(p, tuple) and p[0] == "STATUS":
            return Obj(profmsgsrsv1=[Obj(status=Obj(code=p[1]))])
        raise SyntaxError("not OFX")


def fake_bytesio(x=b""):
    return FakeResponse(x, None, "cached")


def setup(ctx, log, org="O", fid="F", url="http://s1", noassert=False):
    """noassert: the client module as `python -O` / PYTHONOPTIMIZE loads it (assert statements compiled away)"""
    C = optimized_copy(Client) if noassert else Client
    fs = FakeFS(log)
    ctx.stub_attr(config, "DATADIR", FakePath(fs, ["data"]))
    ctx.stub(C, "open", fs.open)
    import os
    ctx.stub(os, "replace", fs.replace)
    ctx.stub(C, "OFXTree", FakeTree)
    ctx.stub(C, "BytesIO", fake_bytesio)
    client = C.OFXClient(url, org=org, fid=fid)
    return fs, client


def cache_key(org, fid):
    return f"data/fiprofiles/{org}-{fid}.profrs"


def server_reply(ctx, behaviour, d1, errcode, server):
    if behaviour == "profile":
        return Profile(server, d1, "new")
    if behaviour == "uptodate":
        return "UPTODATE"
    if behaviour == "error_status":
        return ("STATUS", errcode)
    if behaviour == "garbage":
        return "GARBAGE"
    return None


def one_call(ctx, client, log, reply):
    """request_profile with _request_profile stubbed by the server behaviour; returns (result | None, sent date)"""
    sent = []

    def rp(**kw):
        log.append(("POST", kw.get("dtprofup")))
        sent.append(kw.get("dtprofup"))
        if reply is None:
            raise OSError("transport failure")
        return FakeResponse(reply, log, "server")
    client._request_profile = rp
    try:
        r = client.request_profile()
    except (AssertionError, SyntaxError, OSError, ValueError, AttributeError, Warning) as e:
        return None, sent, type(e).__name__
    return r, sent, None


# ---------------------------------------------------------------- one step from an arbitrary valid pre-state
def h_step(ctx, behaviour, noassert=False):
    log = []
    fs, client = setup(ctx, log, noassert=noassert)
    key = cache_key("O", "F")
    has_cache = ctx.bool("cache_present")
    d0 = ctx.datetime("d0", 2000, 2030, utils.UTC)          # DTPROFUP of the cached profile
    d1 = ctx.datetime("d1", 2000, 2030, utils.UTC)          # DTPROFUP of the profile the server sends
    errcode = ctx.int("errcode", 2, 20000)
    old = Profile("http://s1", d0, "old")
    if has_cache:
        fs.files[key] = old
    before = fs.files.get(key)
    reply = server_reply(ctx, behaviour, d1, errcode, "http://s1")
    res, sent, exc = one_call(ctx, client, log, reply)
    ctx.observe("exc", exc)
    after = fs.files.get(key)
    ctx.check("the server is asked with the date of the profile then held (none held: no date)",
              len(sent) == 1 and (sent[0] == d0 if has_cache else sent[0] is None))
    if res is None:
        ctx.check("a call that fails leaves the cache as it was", after is before)
    else:
        payload = res.payload
        if behaviour == "profile":
            ctx.check("a successful call returns the newest profile the server has sent", payload is reply)
            ctx.check("the newer profile is cached whole", after is reply)
            ctx.check("the cache never goes back in time", (not has_cache) or d1 >= d0)
        elif behaviour == "uptodate":
            ctx.check("'up to date' returns the cached profile", has_cache and payload is old)
            ctx.check("'up to date' leaves the cache as it was", after is before)
        else:
            ctx.check("an error status / garbage never counts as success", False)
    ctx.check("the cache is absent or one complete profile", after is None or isinstance(after, Profile))
    if behaviour == "profile" and has_cache:
        ctx.check("a server sending an older profile than the cached one is refused", ctx.implies(d1 < d0, res is None))
    if behaviour == "uptodate" and not has_cache:
        ctx.check("'up to date' without a cached profile is refused", res is None)


def h_step_unreadable(ctx, behaviour):
    """the profile held in the cache is complete and newest, but reading it fails in this process (its conversion raises: an
    unknown-tag warning under -W error): the call may fail, but the cache must not go back in time and the server must not
    be asked as if nothing were held"""
    log = []
    fs, client = setup(ctx, log)
    key = cache_key("O", "F")
    d0 = ctx.datetime("d0", 2000, 2030, utils.UTC)
    d1 = ctx.datetime("d1", 2000, 2030, utils.UTC)
    held = Profile("http://s1", d0, "warns")
    fs.files[key] = held
    reply = server_reply(ctx, behaviour, d1, 2000, "http://s1")
    res, sent, exc = one_call(ctx, client, log, reply)
    ctx.observe("exc", exc)
    after = fs.files.get(key)
    ctx.check("the cache is absent or one complete profile", after is None or isinstance(after, Profile))
    ctx.check("the cache never goes back in time (held profile unreadable in this process)",
              after is held or (isinstance(after, Profile) and after.date >= d0))
    if res is None:
        ctx.check("a call that fails leaves the cache as it was", after is held)


# ---------------------------------------------------------------- crash while the cache is being written
def h_crash(ctx):
    """run a successful update, then cut its effect trace at a symbolic index (crash) and replay the prefix on a
    fresh file model; a later request_profile must neither fail nor return mixed content"""
    log = []
    fs, client = setup(ctx, log)
    key = cache_key("O", "F")
    has_cache = ctx.bool("cache_present")
    old = Profile("http://s1", datetime.datetime(2020, 1, 5, 8, tzinfo=utils.UTC), "old")
    new = Profile("http://s1", datetime.datetime(2020, 1, 5, 12, tzinfo=utils.UTC), "new")
    if has_cache:
        fs.files[key] = old
    res, sent, exc = one_call(ctx, client, log, new)
    ctx.check("the update itself succeeds", res is not None and fs.files.get(key) is new)
    writes = [i for i, e in enumerate(log) if e[0] in ("open", "write", "close", "replace", "remove") and (len(e) < 3 or e[0] != "open" or "w" in e[2])]
    fs_ops = [e for e in log if e[0] in ("open", "write", "close", "replace", "remove")]
    wr = [e for e in fs_ops if not (e[0] in ("open", "close") and "r" in e[2] and "w" not in e[2])]
    cut = ctx.choice("crash_after", list(range(0, len(wr) + 1)))
    # replay the prefix of write-side effects
    files = {}
    if has_cache:
        files[key] = old
    for e in wr[:cut]:
        if e[0] == "open":
            files[e[1]] = TRUNCATED
        elif e[0] == "write":
            files[e[1]] = e[2]
        elif e[0] == "replace":
            files[e[2]] = files.pop(e[1])
        elif e[0] == "remove":
            files.pop(e[1], None)
    state = files.get(key)
    ctx.observe("state_kind", "absent" if state is None else ("truncated" if state is TRUNCATED else state.tag))
    if ctx.known("C15-cache-written-in-place", state is TRUNCATED):
        return
    ctx.check("after a crash at any point the cache is absent or one complete profile", state is None or isinstance(state, Profile))
    # a later request against an up-to-date server must work from that state
    log2 = []
    fs2, client2 = setup(ctx, log2)
    if state is not None:
        fs2.files[key] = state
    res2, sent2, exc2 = one_call(ctx, client2, log2, "UPTODATE" if isinstance(state, Profile) else new)
    ctx.check("a request after the crash neither fails nor returns mixed content", res2 is not None and isinstance(res2.payload, Profile))


# ---------------------------------------------------------------- two concurrent writers of one cache file
def h_interleave(ctx):
    """two request_profile calls THROUGH ONE CLIENT, as ofxget's scan does from two threads, receive profiles A (la bytes)
    and B (lb bytes).  The write-side steps of each call (file operations with the paths the real code uses, the thread
    identity being stubbed per writer) are extracted on every run and interleaved under a symbolic schedule on a file model."""
    import threading
    la = ctx.int("len_a", 1, 1000)
    lb = ctx.int("len_b", 1, 1000)
    log = []
    fs, client = setup(ctx, log)
    who_now = ["A"]
    ctx.stub(threading, "get_ident", lambda: {"A": 1001, "B": 2002}[who_now[0]])
    steps = {}
    for who in ("A", "B"):
        who_now[0] = who
        del log[:]
        fs.files.clear()
        one_call(ctx, client, log, Profile("http://s1", datetime.datetime(2020, 1, 5, 12, tzinfo=utils.UTC), who))
        steps[who] = [(e[0], e[1], e[2] if len(e) > 2 else None) for e in log
                      if e[0] in ("open", "write", "replace") and (e[0] != "open" or "w" in e[2])]
    ctx.observe("steps", [(op, path) for op, path, _ in steps["A"]])
    key = cache_key("O", "F")
    files = {}                       # path -> list of (owner, length) segments from offset 0
    na = nb = 0
    n = len(steps["A"])
    failed = None
    for k in range(2 * n):
        if na < n and (nb >= len(steps["B"]) or ctx.bool(f"sched{k}")):
            who, i = "A", na
            na += 1
        else:
            who, i = "B", nb
            nb += 1
        ln = la if who == "A" else lb
        op, path, arg = steps[who][i]
        if op == "open":
            files[path] = []                                   # open('wb') truncates
        elif op == "write":
            tail = []
            for owner, seg in files.get(path, []):
                if owner != who and seg > ln:
                    tail = [(owner, seg - ln)]                  # the other writer's bytes beyond our length survive
            files[path] = [(who, ln)] + tail
        elif op == "replace":
            if path not in files:
                failed = "FileNotFoundError"                   # the other writer already renamed the shared file away
            else:
                files[arg] = files.pop(path)
    content = files.get(key)
    whole = content is not None and len(content) == 1 and failed is None
    ctx.check("concurrent writers never leave mixed content in the cache, and neither request fails", whole)


# ---------------------------------------------------------------- cache ownership
def h_owner(ctx):
    """two clients for different servers but equal ORG/FID (e.g. both unset): is a profile cached from one used for the other?"""
    same_org = ctx.bool("same_org_fid")
    log = []
    fs, c1 = setup(ctx, log, org=None, fid=None, url="http://s1")
    p1 = Profile("http://s1", datetime.datetime(2020, 1, 5, 8, tzinfo=utils.UTC), "s1")
    one_call(ctx, c1, log, p1)
    c2 = OFXClient("http://s2", org=None if same_org else "O2", fid=None if same_org else "F2")
    res, sent, exc = one_call(ctx, c2, log, "UPTODATE")
    if same_org and ctx.known("C15-cache-keyed-by-org-fid-only"):
        return
    ctx.check("a profile cached from one server is never returned for a different server",
              res is None or res.payload.server == "http://s2")


def h_owner_dotted(ctx):
    """institutions whose ORG / FID contain dots and differ only after the last dot must not share a cache file"""
    log = []
    org1, fid1 = ctx.choice("id1", [("msdw.com", "1235"), ("a.b", "1"), ("x", "1.5")])
    org2, fid2 = ctx.choice("id2", [("msdw.com", "14137"), ("a.c", "1"), ("x", "1.7")])
    fs, c1 = setup(ctx, log, org=org1, fid=fid1, url="http://s1")
    p1 = Profile("http://s1", datetime.datetime(2020, 1, 5, 8, tzinfo=utils.UTC), "s1")
    one_call(ctx, c1, log, p1)
    c2 = OFXClient("http://s2", org=org2, fid=fid2)
    res, sent, exc = one_call(ctx, c2, log, "UPTODATE")
    ctx.check("institutions with different ORG/FID never share a cached profile", res is None and sent == [None])


HARNESSES = dict(step_unreadable=h_step_unreadable, owner_dotted=h_owner_dotted, step=h_step, crash=h_crash, interleave=h_interleave, owner=h_owner)

META = dict(
    bounds=dict(step="one request_profile call from an arbitrary valid pre-state (cache absent / complete profile with symbolic date), six server behaviours, symbolic dates and status codes: "
                     "the obligations form an inductive invariant, so histories of any length are covered",
                crash="the write-side effect trace of a real successful update (extracted on every run) cut at every index",
                interleave="two writers, all interleavings of their open/write/(replace) steps, symbolic content lengths 1..1000"),
    models=["instrumented OFXClient.request_profile", "stubs: config.DATADIR/open (file model with effect log), OFXTree (model view of the payload), BytesIO, _request_profile (server behaviour)",
            "POSIX semantics assumed for open('wb') = truncate, write at own offset, close; os.replace atomic"],
    assumptions=["profiles are abstract payload objects (server of origin, date); parsing/serialising real PROFRS documents is C01-C03's subject",
                 "the thread schedule of ofxget's _queue_scans is represented by interleaving the write steps of two calls"],
)


def instances(tier, seed):
    out = []

    def mk(name, h, params, **opts):
        opts.setdefault("wall_s", 300)
        opts.setdefault("timeout_ms", 30000)
        out.append(dict(name=name, harness=h, fn=HARNESSES[h], params=params, opts=opts))
    for b in BEHAVIOURS:
        mk(f"step[{b}]", "step", dict(behaviour=b))
        mk(f"step_unreadable[{b}]", "step_unreadable", dict(behaviour=b))
        mk(f"step[{b},python -O]", "step", dict(behaviour=b, noassert=True))
    mk("crash", "crash", {})
    mk("interleave", "interleave", {}, max_paths=100000)
    mk("owner", "owner", {})
    mk("owner_dotted", "owner_dotted", {})
    return out
