"""C08 - improperly nested or truncated markup is never silently accepted as a tree."""
from ofxtools import Parser
from sx.models.etree import make_treebuilder
from sx.models.io import make_source
from sx.instrument import optimized_copy
from harness.render import sym_tree, render
from harness.wire import SHAPES

PID = "C08"
NAMES = ["A", "AB", "B"]          # one name contains the others: an end tag must equal the open tag, not resemble it


def parse(ctx, text, noassert=False):
    """the body parser as OFXTree.parse drives it: feed, then close; returns the root or None when it failed
    (noassert: the module as `python -O` loads it - nothing the property states may rest on an assert statement)"""
    P = optimized_copy(Parser) if noassert else Parser
    tb = make_treebuilder(P.TreeBuilder, ctx.mode == "sym")
    try:
        tb.feed(text)
        return tb.close()
    except (SyntaxError, AssertionError, IndexError):
        return None


# ---------------------------------------------------------------- reference: stack discipline over tokens
def ref_well_nested(ctx, toks):
    """tokens: ('open', name) ('close', name) ('data', text) ('ws', text).
    Well nested: one root; every aggregate closed by its own end tag; a data element (open tag followed by data) may
    omit its end tag; no data directly inside an aggregate after a child or after the root; nothing after the root."""
    stack = []          # names of open elements; the top may be a data element awaiting its optional end tag
    top_is_leaf = False
    root_done = False
    seen_root = False
    prev_open = False
    prev_data = False
    for kind, val in toks:
        if kind == "ws":
            continue
        if kind == "open":
            if top_is_leaf:
                stack.pop()            # implicit end of the data element
                top_is_leaf = False
            if not stack:
                if seen_root:
                    return False       # second top-level element
                seen_root = True
            stack.append(val)
            prev_open = True
            prev_data = False
            continue
        if kind == "data":
            if top_is_leaf and prev_data:
                continue               # more characters of the same data (adjacent text, possibly with inner blanks)
            if not seen_root:
                continue               # text before the first tag: skipped by the tokenizer (observation, not in the property's list)
            if not prev_open or not stack:
                return False           # stray text (after an end tag or outside the root)
            top_is_leaf = True
            prev_open = False
            prev_data = True
            continue
        # close
        prev_open = False
        prev_data = False
        if top_is_leaf:
            if stack and stack[-1] == val:
                stack.pop()
                top_is_leaf = False
                continue
            stack.pop()                # implicit end of the data element, then the end tag must close its parent
            top_is_leaf = False
        if not stack or stack[-1] != val:
            return False               # stray / misspelled / foreign end tag
        stack.pop()
    if top_is_leaf:
        stack.pop()
    return seen_root and not stack


def h_tokens(ctx, n, noassert=False):
    toks = []
    text = ""
    for i in range(n):
        kind = ctx.choice(f"k{i}", ["open", "close", "data", "ws"])
        if kind in ("open", "close"):
            name = ctx.choice(f"n{i}", NAMES)
            toks.append((kind, name))
            text = text + ("<" if kind == "open" else "</") + name + ">"
        elif kind == "data":
            d = ctx.str(f"d{i}", 1, [(0x21, 0x3B), (0x3D, 0x7E)])
            toks.append((kind, d))
            text = text + d
        else:
            w = ctx.str(f"w{i}", 1, [(10, 10), (32, 32)])
            toks.append((kind, w))
            text = text + w
    ok = ref_well_nested(ctx, toks)
    if not ok and ctx.known("C08-lenient-end-tags"):
        return
    out = parse(ctx, text, noassert)
    ctx.observe("accepted", out is not None)
    ctx.check("a body whose aggregate tags are not properly nested and closed never yields a tree", ctx.implies(not ok, out is None))
    ctx.check("a properly nested body is accepted", ctx.implies(ok, out is not None))


def h_truncate(ctx, shape, datalen):
    spec = sym_tree(ctx, shape, 1, datalen, tagset=None)
    text = render(ctx, spec, 0, False)
    n = len(text)
    last = n - 1            # index of the final '>'
    cut = ctx.choice("cut", list(range(0, last)))
    if ctx.known("C08-lenient-end-tags"):
        return
    out = parse(ctx, text[:cut + 0]) if cut > 0 else parse(ctx, "")
    ctx.check("a document cut off before its final end tag never yields a tree", out is None)


V1HEAD = "OFXHEADER:100\r\nDATA:OFXSGML\r\nVERSION:102\r\nSECURITY:NONE\r\nENCODING:USASCII\r\nCHARSET:%s\r\nCOMPRESSION:NONE\r\nOLDFILEUID:NONE\r\nNEWFILEUID:NONE\r\n\r\n"
BODY = b"<OFX><B><A>1</A></B></OFX>"
#  insertion points from the data of <A> up to the '>' of its own (optional) end tag: the extra bytes become part of the data, or turn
#  the optional end tag of a data element into something the tokenizer skips - the property is about aggregate tags, so not asserted
DATA_POS = tuple(range(BODY.index(b"1"), BODY.index(b"</A>") + 4))
#  any byte but white space (as bytes or once decoded: 0x85, 0xA0) and the markup characters < > /
EXTRA = ((0x21, 0x2E), (0x30, 0x3B), (0x3D, 0x3D), (0x3F, 0x84), (0x86, 0x9F), (0xA1, 0xFF))


def h_bytes(ctx, charset, nextra):
    """a whole OFXv1 file through OFXTree.parse: one or two arbitrary extra bytes (decodable in the declared character set
    or not) at a symbolic place in a well-formed body"""
    pos = ctx.choice("pos", list(range(1, len(BODY) + 1)))
    extra = ctx.bytes("x", nextra, EXTRA)
    data = (V1HEAD % charset).encode("ascii") + BODY[:pos] + extra + BODY[pos:]
    ctx.observe("file", data)
    t = Parser.OFXTree()
    try:
        t.parse(make_source(data))
        root = t.getroot()
    except (SyntaxError, AssertionError, IndexError, ValueError):
        root = None
    if pos in DATA_POS:
        ctx.observe("accepted", root is not None)
    else:
        ctx.check("a file whose tags are damaged by extra bytes (misspelled tag, text after an end tag) never yields a tree", root is None)


def h_long_stray(ctx, total):
    """a body of several thousand characters, one element per line: stray text after an end tag (at the start of the next line), or a
    deleted aggregate end tag, near a power-of-two offset or anywhere else, is refused just as in a short body"""
    boundary = ctx.choice("boundary", [4096, 8192] if total < 17000 else [4096, 8192, 16384])
    unit = len("<A><B>0000000000</B></A>\r\n")
    k = (boundary - len("<OFX>\r\n")) // unit
    j = k + ctx.choice("line", [-1, 0, 1, 2])
    damage = ctx.choice("damage", ["stray text", "end tag deleted", "end tag misspelled"])
    stray = ctx.str("x", 1, [(0x21, 0x3B), (0x3D, 0x7E)])
    n = total // unit
    parts = []
    for i in range(n):
        line = "<A><B>%010d</B></A>\r\n" % i
        if i == j and damage == "end tag deleted":
            line = "<A><B>%010d</B>\r\n" % i
        if i == j and damage == "end tag misspelled":
            line = "<A><B>%010d</B></AA>\r\n" % i
        if i == j + 1 and damage == "stray text":
            line = stray + line
        parts.append(line)
    text = "<OFX>\r\n" + "".join(parts) + "</OFX>"
    out = parse(ctx, text)
    ctx.check("a body whose aggregate tags are not properly nested and closed never yields a tree", out is None)


HARNESSES = dict(tokens=h_tokens, truncate=h_truncate, bytes=h_bytes, long_stray=h_long_stray)

META = dict(
    bounds=dict(tokens="sequences of <= 5 (quick) / 6 (thorough) tokens; kind symbolic over open/close/data/blank; names symbolic over 3",
                files="OFXv1 file (CHARSET 1252 / NONE / ISO-8859-1) with body <OFX><A>1</A></OFX> and 1 (quick) / 1-2 (thorough) arbitrary non-blank, non-markup bytes inserted at every place after the first '<'",
                truncation="every rendering (no white space) of every tree skeleton with <= 3 (quick) / 4 (thorough) nodes, cut at every index before the last '>'"),
    models=["re backtracking matcher on TreeBuilder.regex", "C-faithful TreeBuilder state machine (end() ignores its argument; close() ignores open elements)"],
    observations=["characters before the first tag of the body are skipped silently (the property lists text after an end tag, not before the root)"],
    assumptions=["reference well-nestedness predicate: stack discipline, data elements may omit their end tag, one root, nothing after it"],
)


def instances(tier, seed):
    out = []
    full = tier != "quick"
    for n in ((1, 2, 3, 4) if not full else (1, 2, 3, 4, 5, 6)):
        out.append(dict(name=f"tokens[{n}]", harness="tokens", fn=h_tokens, params=dict(n=n),
                        opts=dict(wall_s=600 if not full else 3000, max_paths=400000)))
    # the interpreter run with -O / PYTHONOPTIMIZE: assert statements are compiled away
    for n in ((3,) if not full else (3, 4, 5)):
        out.append(dict(name=f"tokens[{n},python -O]", harness="tokens", fn=h_tokens, params=dict(n=n, noassert=True),
                        opts=dict(wall_s=600 if not full else 3000, max_paths=400000)))
    for sh in (["2", "3a", "3b"] if not full else list(SHAPES)):
        out.append(dict(name=f"truncate[{sh}]", harness="truncate", fn=h_truncate, params=dict(shape=sh, datalen=1 if not full else [1, 2]),
                        opts=dict(wall_s=600 if not full else 3000, max_paths=200000)))
    for total in ((9000,) if not full else (9000, 20000)):
        out.append(dict(name=f"long_stray[{total}]", harness="long_stray", fn=h_long_stray, params=dict(total=total), opts=dict(wall_s=900, max_paths=5000)))
    for cs in ("1252", "NONE", "ISO-8859-1"):
        for k in ((1,) if not full else (1, 2)):
            out.append(dict(name=f"bytes[{cs},{k}]", harness="bytes", fn=h_bytes, params=dict(charset=cs, nextra=k), opts=dict(wall_s=600, max_paths=100000)))
    return out
