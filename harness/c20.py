"""C20 - security-identifier check digits (CUSIP / SEDOL / ISIN)."""
from ofxtools import utils, lib

PID = "C20"
CUSIP_ALPHA = "0-9A-Z*@#"
SEDOL_ALPHA = "0-9B-DF-HJ-NP-TV-Z"
ALNUM = "0-9A-Z"


# ---------------------------------------------------------------- reference algorithms (no library code)
def ref_charval(ctx, c):
    """0-9 -> 0..9, A-Z -> 10..35, * @ # -> 36 37 38"""
    o = ord(c)
    return ctx.ite(o == 35, 38, ctx.ite(o == 42, 36, ctx.ite(o == 64, 37, ctx.ite(o <= 57, o - 48, o - 55))))


def ref_cusip(ctx, base):
    total = 0
    i = 0
    for c in base:
        v = ref_charval(ctx, c)
        if i % 2:
            v = v * 2
        total = total + v // 10 + v % 10
        i += 1
    return (10 - total % 10) % 10


def ref_sedol(ctx, base):
    weights = (1, 3, 1, 7, 3, 9)
    total = 0
    i = 0
    for c in base:
        total = total + ref_charval(ctx, c) * weights[i]
        i += 1
    return (10 - total % 10) % 10


def ref_isin(ctx, base):
    """Luhn over the digit expansion (A=10 ... Z=35 give two digits), doubling every other digit from the right."""
    digits = []
    for c in base:
        if c.isdigit():
            digits.append(ord(c) - 48)
        else:
            v = ord(c) - 55
            digits.append(v // 10)
            digits.append(v % 10)
    total = 0
    dbl = True
    for d in reversed(digits):
        if dbl:
            e = d * 2
            total = total + ctx.ite(e >= 10, e - 9, e)
        else:
            total = total + d
        dbl = not dbl
    return (10 - total % 10) % 10


# ---------------------------------------------------------------- harnesses
def h_cusip(ctx, special):
    """8 symbolic characters over the CUSIP alphabet; `special` selects the sub-space with/without * @ #."""
    base = ctx.str("base", 8, CUSIP_ALPHA if special else ALNUM)
    if special:
        ctx.assume(ctx.any([c == "*" or c == "@" or c == "#" for c in base]) if False else True)
    if ctx.known("C20-cusip-special-chars", ctx.any(['*' == c for c in base] + ['@' == c for c in base] + ['#' == c for c in base])):
        return
    chk = utils.cusip_checksum(base)
    ref = ref_cusip(ctx, base)
    ctx.observe("check", chk)
    ctx.check("cusip check digit equals the published algorithm", chk == str(ref))
    ctx.check("completed CUSIP validates", utils.validate_cusip(base + chk) is True)
    x = ctx.str("x", 1, CUSIP_ALPHA if special else ALNUM)
    ctx.assume(x != chk)
    ctx.check("CUSIP with a changed check character fails validation", utils.validate_cusip(base + x) is False)
    isin = utils.cusip2isin(base + chk)
    ctx.observe("isin", isin)
    ctx.check("cusip2isin embeds the CUSIP", isin[2:11] == base + chk)
    ctx.check("cusip2isin yields US prefix by default", isin[:2] == "US")
    ctx.check("cusip2isin result validates", utils.validate_isin(isin) is True)


def h_sedol(ctx):
    base = ctx.str("base", 6, SEDOL_ALPHA)
    chk = utils.sedol_checksum(base)
    ref = ref_sedol(ctx, base)
    ctx.observe("check", chk)
    ctx.check("sedol check digit equals the published algorithm", chk == str(ref))
    isin = utils.sedol2isin(base + chk)
    ctx.observe("isin", isin)
    ctx.check("sedol2isin embeds the SEDOL", isin[4:11] == base + chk)
    ctx.check("sedol2isin zero-pads to nine characters", isin[2:4] == "00")
    ctx.check("sedol2isin yields GB prefix by default", isin[:2] == "GB")
    ctx.check("sedol2isin result validates", utils.validate_isin(isin) is True)
    x = ctx.str("x", 1, "0-9")
    ctx.assume(x != chk)
    bad = False
    try:
        utils.sedol2isin(base + x)
    except AssertionError:
        bad = True
    ctx.check("sedol2isin refuses a SEDOL whose check digit is wrong", bad)


def h_isin(ctx, prefix):
    """prefix: a concrete agency code, or None for a symbolic choice over the whole table"""
    if prefix is None:
        pfx = ctx.enum("prefix", sorted(lib.NUMBERING_AGENCIES.keys()))
    else:
        pfx = prefix
    body = ctx.str("body", 9, ALNUM)
    base = pfx + body
    chk = utils.isin_checksum(base)
    ref = ref_isin(ctx, base)
    ctx.observe("check", chk)
    ctx.check("isin check digit equals the published algorithm (Luhn over the digit expansion)", chk == str(ref))
    ctx.check("completed ISIN validates", utils.validate_isin(base + chk) is True)
    x = ctx.str("x", 1, ALNUM)
    ctx.assume(x != chk)
    ctx.check("ISIN with a changed check character fails validation", utils.validate_isin(base + x) is False)


def h_isin_badprefix(ctx):
    """two symbolic letters that are NOT a numbering agency + any body + any check char never validate"""
    pfx = ctx.str("pfx", 2, ALNUM)
    ctx.assume(ctx.all([pfx != k for k in sorted(lib.NUMBERING_AGENCIES.keys())]))
    rest = ctx.str("rest", 10, ALNUM)
    ctx.check("unknown country prefix never validates", utils.validate_isin(pfx + rest) is False)


def h_wronglen(ctx, kind, n):
    s = ctx.str("s", n, CUSIP_ALPHA if kind == "cusip" else ALNUM)
    if kind == "cusip":
        ctx.check("CUSIP of wrong length never validates", utils.validate_cusip(s) is False)
    else:
        ctx.check("ISIN of wrong length never validates", utils.validate_isin(s) is False)


HARNESSES = dict(cusip=h_cusip, sedol=h_sedol, isin=h_isin, isin_badprefix=h_isin_badprefix, wronglen=h_wronglen)

META = dict(
    bounds=dict(cusip="8 symbolic chars over [0-9A-Z*@#]", sedol="6 symbolic chars over SEDOL consonants+digits",
                isin="2-letter agency prefix + 9 symbolic chars over [0-9A-Z]", other_lengths="0..13 except the valid one"),
    models=["int(str, base)", "str(int)", "dict.get", "str slicing/concat/join/zfill", "sum"],
    assumptions=["reference algorithms: CUSIP mod-10 double-add-double, SEDOL weights 1,3,1,7,3,9, ISIN Luhn over digit expansion"],
)


def instances(tier, seed):
    out = []
    mk = lambda name, h, params, **opts: out.append(dict(name=name, harness=h, fn=HARNESSES[h], params=params, opts=opts))
    mk("cusip[alnum]", "cusip", dict(special=False), mode="inc", wall_s=600 if tier == "quick" else 1500, max_paths=100000)
    mk("cusip[special]", "cusip", dict(special=True), mode="inc", wall_s=600 if tier == "quick" else 1500, max_paths=100000)
    mk("sedol", "sedol", {}, mode="inc", wall_s=600)
    for p in (["US", "GB"] if tier == "quick" else ["US", "GB", "DE", "JP", "XS", "CA", "FR"]):
        mk(f"isin[{p}]", "isin", dict(prefix=p), mode="inc", wall_s=900, max_paths=100000)
    if tier != "quick":
        mk("isin[prefix symbolic]", "isin", dict(prefix=None), mode="inc", wall_s=1500, max_paths=200000)
    mk("isin_badprefix", "isin_badprefix", {}, wall_s=300)
    for n in range(0, 14):
        if n != 9:
            mk(f"wronglen[cusip,{n}]", "wronglen", dict(kind="cusip", n=n), wall_s=60)
        if n != 12:
            mk(f"wronglen[isin,{n}]", "wronglen", dict(kind="isin", n=n), wall_s=60)
    return out
