"""C20 - security-identifier check digits (CUSIP / SEDOL / ISIN)."""
from ofxtools import utils, lib
from sx.instrument import optimized_copy

PID = "C20"
CUSIP_ALPHA = "0-9A-Z*@#"
SEDOL_ALPHA = "0-9B-DF-HJ-NP-TV-Z"
ALNUM = "0-9A-Z"


# ---------------------------------------------------------------- reference algorithms (no library code)
def ref_charval(ctx, c):
    """0-9 -> 0..9, A-Z -> 10..35, * @ # -> 36 37 38"""
    if c == "*":
        return 36
    if c == "@":
        return 37
    if c == "#":
        return 38
    if c.isdigit():
        return ord(c) - 48
    return ord(c) - 55


def ref_cusip(ctx, base):
    total = 0
    i = 0
    for c in base:
        v = ref_charval(ctx, c)
        if i % 2:
            v = v * 2
        total = total + v // 10 + v % 10
        i += 1
    return (10 - total % 10) % 10


def ref_sedol(ctx, base):
    weights = (1, 3, 1, 7, 3, 9)
    total = 0
    i = 0
    for c in base:
        total = total + ref_charval(ctx, c) * weights[i]
        i += 1
    return (10 - total % 10) % 10


def ref_isin(ctx, base):
    """Luhn over the digit expansion (A=10 ... Z=35 give two digits), doubling every other digit from the right."""
    digits = []
    for c in base:
        if c.isdigit():
            digits.append(ord(c) - 48)
        else:
            v = ord(c) - 55
            digits.append(v // 10)
            digits.append(v % 10)
    total = 0
    dbl = True
    for d in reversed(digits):
        if dbl:
            e = d * 2
            total = total + ctx.ite(e >= 10, e - 9, e)
        else:
            total = total + d
        dbl = not dbl
    return (10 - total % 10) % 10


# ---------------------------------------------------------------- harnesses
CLS = {"d": "0-9", "l": "A-Z", "s": "*@#", "a": ALNUM, "c": CUSIP_ALPHA, "S": SEDOL_ALPHA, "L": "B-DF-HJ-NP-TV-Z"}


def split_str(ctx, name, classes):
    """string whose i-th character ranges over CLS[classes[i]] (the class pattern partitions the input space
    into independent harness instances)"""
    out = ""
    i = 0
    for k in classes:
        out = out + ctx.str(f"{name}{i}", 1, CLS[k])
        i += 1
    return out


def malformed_prelude():
    """an arbitrary preceding workload: malformed identifiers, refused with an error part-way through the computation"""
    for f, bad in ((utils.validate_cusip, " 84670207"), (utils.validate_cusip, "0846702 7"), (utils.cusip_checksum, "1234567!"),
                   (utils.sedol_checksum, "0 6325"), (utils.validate_isin, "US03783 1005")):
        try:
            f(bad)
        except (ValueError, AssertionError):
            pass


def long_history(n):
    """an arbitrary preceding workload of n distinct well-formed identifiers through every public function"""
    for i in range(n):
        c = "%08d" % (i * 7919 % 100000000)
        utils.validate_cusip(c + utils.cusip_checksum(c))
        s = "%06d" % (i * 104729 % 1000000)
        utils.sedol_checksum(s)
        b = "US%09d" % (i * 15485863 % 1000000000)
        utils.validate_isin(b + utils.isin_checksum(b))


def h_cusip(ctx, classes, history=0):
    """8 symbolic characters; classes gives the alphabet of each position (d digits, l letters, s specials, a/c any)"""
    malformed_prelude()
    long_history(history)
    base = split_str(ctx, "b", classes)
    if ctx.known("C20-cusip-special-chars", ctx.any(['*' == c for c in base] + ['@' == c for c in base] + ['#' == c for c in base])):
        return
    chk = utils.cusip_checksum(base)
    ref = ref_cusip(ctx, base)
    ctx.observe("check", chk)
    ctx.check("cusip check digit equals the published algorithm", chk == str(ref))
    ctx.check("completed CUSIP validates", utils.validate_cusip(base + chk) is True)
    x = ctx.str("x", 1, CUSIP_ALPHA)
    ctx.assume(x != chk)
    ctx.check("CUSIP with a changed check character fails validation", utils.validate_cusip(base + x) is False)


def h_cusip2isin(ctx, classes):
    """conversion of a valid CUSIP (the composition validate_cusip + isin_checksum, each covered on its own above)"""
    base = split_str(ctx, "b", classes)
    chk = utils.cusip_checksum(base)
    isin = utils.cusip2isin(base + chk)
    ctx.observe("isin", isin)
    ctx.check("cusip2isin embeds the CUSIP", isin[2:11] == base + chk)
    ctx.check("cusip2isin yields US prefix by default", isin[:2] == "US")
    ctx.check("cusip2isin result validates", utils.validate_isin(isin) is True)
    bad = False
    x = ctx.str("x", 1, ALNUM)
    ctx.assume(x != chk)
    try:
        utils.cusip2isin(base + x)
    except ValueError:
        bad = True
    ctx.check("cusip2isin refuses a CUSIP whose check digit is wrong", bad)


def h_sedol(ctx, classes, history=0):
    malformed_prelude()
    long_history(history)
    base = split_str(ctx, "b", classes)
    chk = utils.sedol_checksum(base)
    ref = ref_sedol(ctx, base)
    ctx.observe("check", chk)
    ctx.check("sedol check digit equals the published algorithm", chk == str(ref))
    isin = utils.sedol2isin(base + chk)
    ctx.observe("isin", isin)
    ctx.check("sedol2isin embeds the SEDOL", isin[4:11] == base + chk)
    ctx.check("sedol2isin zero-pads to nine characters", isin[2:4] == "00")
    ctx.check("sedol2isin yields GB prefix by default", isin[:2] == "GB")
    ctx.check("sedol2isin result validates", utils.validate_isin(isin) is True)
    x = ctx.str("x", 1, "0-9")
    ctx.assume(x != chk)
    bad = False
    try:
        utils.sedol2isin(base + x)
    except AssertionError:
        bad = True
    ctx.check("sedol2isin refuses a SEDOL whose check digit is wrong", bad)


def h_isin(ctx, prefix, classes, history=0):
    """prefix: a concrete agency code, or None for a symbolic choice over the whole table"""
    if prefix is None:
        pfx = ctx.enum("prefix", sorted(lib.NUMBERING_AGENCIES.keys()))
    else:
        pfx = prefix
    malformed_prelude()
    long_history(history)
    body = split_str(ctx, "b", classes)
    base = pfx + body
    chk = utils.isin_checksum(base)
    ref = ref_isin(ctx, base)
    ctx.observe("check", chk)
    ctx.check("isin check digit equals the published algorithm (Luhn over the digit expansion)", chk == str(ref))
    ctx.check("completed ISIN validates", utils.validate_isin(base + chk) is True)
    x = ctx.str("x", 1, ALNUM)
    ctx.assume(x != chk)
    ctx.check("ISIN with a changed check character fails validation", utils.validate_isin(base + x) is False)


def _lib(noassert):
    """the library module, or the module as `python -O` loads it (assert statements compiled away)"""
    return optimized_copy(utils) if noassert else utils


def h_isin_badprefix(ctx, noassert=False):
    """two symbolic letters that are NOT a numbering agency + any body + any check char never validate"""
    U = _lib(noassert)
    pfx = ctx.str("pfx", 2, ALNUM)
    ctx.assume(ctx.all([pfx != k for k in sorted(lib.NUMBERING_AGENCIES.keys())]))
    rest = ctx.str("rest", 10, ALNUM)
    ctx.check("unknown country prefix never validates", U.validate_isin(pfx + rest) is False)


def h_wronglen(ctx, kind, n, noassert=False):
    U = _lib(noassert)
    s = ctx.str("s", n, CUSIP_ALPHA if kind == "cusip" else ALNUM)
    if kind == "cusip":
        r = False
        try:
            r = U.validate_cusip(s)
        except ValueError:
            pass
        ctx.check("CUSIP of wrong length never validates", r is False)
    else:
        r = False
        try:
            r = U.validate_isin(s)
        except ValueError:
            pass
        ctx.check("ISIN of wrong length never validates", r is False)


def h_noassert_digits(ctx, kind, classes):
    """the check-digit obligations with assert statements compiled away (python -O): computed digit, completed identifier
    validates, changed check character fails"""
    U = optimized_copy(utils)
    if kind == "cusip":
        base = split_str(ctx, "b", classes)
        chk = U.cusip_checksum(base)
        ctx.check("cusip check digit equals the published algorithm", chk == str(ref_cusip(ctx, base)))
        ctx.check("completed CUSIP validates", U.validate_cusip(base + chk) is True)
        x = ctx.str("x", 1, CUSIP_ALPHA)
        ctx.assume(x != chk)
        ctx.check("CUSIP with a changed check character fails validation", U.validate_cusip(base + x) is False)
        isin = U.cusip2isin(base + chk)
        ctx.check("cusip2isin embeds the CUSIP and validates", ctx.all([isin[2:11] == base + chk, U.validate_isin(isin) is True]))
    elif kind == "sedol":
        base = split_str(ctx, "b", classes)
        chk = U.sedol_checksum(base)
        ctx.check("sedol check digit equals the published algorithm", chk == str(ref_sedol(ctx, base)))
        isin = U.sedol2isin(base + chk)
        ctx.check("sedol2isin embeds the SEDOL and validates", ctx.all([isin[4:11] == base + chk, U.validate_isin(isin) is True]))
    else:
        pfx = ctx.enum("prefix", sorted(k for k in lib.NUMBERING_AGENCIES.keys() if len(k) == 2))
        base = pfx + split_str(ctx, "b", classes)
        chk = U.isin_checksum(base)
        ctx.check("isin check digit equals the published algorithm (Luhn over the digit expansion)", chk == str(ref_isin(ctx, base)))
        ctx.check("completed ISIN validates", U.validate_isin(base + chk) is True)
        x = ctx.str("x", 1, ALNUM)
        ctx.assume(x != chk)
        ctx.check("ISIN with a changed check character fails validation", U.validate_isin(base + x) is False)


HARNESSES = dict(cusip=h_cusip, cusip2isin=h_cusip2isin, sedol=h_sedol, isin=h_isin, isin_badprefix=h_isin_badprefix, wronglen=h_wronglen,
                 noassert_digits=h_noassert_digits)

META = dict(
    bounds=dict(cusip="8 symbolic chars over [0-9A-Z*@#]", sedol="6 symbolic chars over SEDOL consonants+digits",
                isin="2-letter agency prefix + 9 symbolic chars over [0-9A-Z]", other_lengths="0..13 except the valid one"),
    models=["int(str, base)", "str(int)", "dict.get", "str slicing/concat/join/zfill", "sum"],
    assumptions=["reference algorithms: CUSIP mod-10 double-add-double, SEDOL weights 1,3,1,7,3,9, ISIN Luhn over digit expansion"],
)


def _patterns(n, k, leading, rest):
    """all class patterns: first k positions range over `leading` classes, the others are `rest`"""
    import itertools
    return ["".join(p) + rest * (n - k) for p in itertools.product(leading, repeat=k)]


def instances(tier, seed):
    import random, itertools
    rnd = random.Random(seed)
    out = []
    full = tier != "quick"
    mk = lambda name, h, params, **opts: out.append(dict(name=name, harness=h, fn=HARNESSES[h], params=params, opts=dict(dict(mode="inc", wall_s=900 if not full else 300, max_paths=300000), **opts)))
    # CUSIP check digit.  thorough: the alphanumeric space completely (split by the class of the first 3 characters);
    # quick: every class combination of the first 3 characters, 2 seed-rotated free positions, 3 seed-fixed classes
    for pat in _patterns(8, 3, "dl", "a"):
        if not full:
            rest = list("aa" + "".join(rnd.choice("dl") for _ in range(3)))
            rnd.shuffle(rest)
            pat = pat[:3] + "".join(rest)
        mk(f"cusip[{pat}]", "cusip", dict(classes=pat))
    # CUSIP with * @ #: one special character at a position, the rest any (thorough: all 8 positions; quick: 2 seed-rotated
    # positions with four of the other positions restricted to digits)
    pos = list(range(8)) if full else rnd.sample(range(8), 2)
    for p in pos:
        pat = ["a"] * 8
        if not full:
            for q in rnd.sample([i for i in range(8) if i != p], 4):
                pat[q] = "d"
        pat[p] = "s"
        pat = "".join(pat)
        mk(f"cusip[{pat}]", "cusip", dict(classes=pat))
    if full:
        mk("cusip[ssdddddd]", "cusip", dict(classes="ssdddddd"))
        mk("cusip[sdsdsdsd]", "cusip", dict(classes="sdsdsdsd"))
    # cusip2isin: composition, on class patterns (quick: all digits, all letters, 2 seeded; thorough: first 4 free classes)
    pats = ["dddddddd", "llllllll"] + ["".join(rnd.choice("dl") for _ in range(8)) for _ in range(2)]
    if full:
        pats = sorted(set(pats + ["".join(p) + "aaaa" for p in itertools.product("dl", repeat=4)]))
    for pat in pats:
        mk(f"cusip2isin[{pat}]", "cusip2isin", dict(classes=pat))
    for pat in _patterns(6, 2, "dL", "S"):
        mk(f"sedol[{pat}]", "sedol", dict(classes=pat))
    prefixes = ["US", "GB"] if not full else ["US", "GB", "DE", "JP", "XS"]
    for pfx in prefixes:
        if full and pfx in ("US", "GB"):
            pats = _patterns(9, 5, "dl", "a")           # complete alphanumeric space, 32 slices
        else:
            # digits/letters fixed at 7 seed-rotated positions (at most 4 letters), 2 positions free:
            # 5 (quick) / 24 (thorough) seeded class patterns + the all-digit pattern
            pats = []
            for _ in range(5 if not full else 12):
                free = rnd.sample(range(9), 2)
                letters = rnd.sample([i for i in range(9) if i not in free], rnd.choice([1, 2, 3, 4]))
                pats.append("".join("a" if i in free else ("l" if i in letters else "d") for i in range(9)))
            pats = sorted(set(pats + ["ddddddddd"] + (["lllllllll"] if full else [])))
        for pat in pats:
            mk(f"isin[{pfx},{pat}]", "isin", dict(prefix=pfx, classes=pat))
    if full:
        mk("isin[prefix symbolic,ddddddddd]", "isin", dict(prefix=None, classes="ddddddddd"))
        mk("isin[prefix symbolic,lllllllll]", "isin", dict(prefix=None, classes="lllllllll"))
    # the same obligations after a long history of other identifiers (300 distinct valid ones through every function)
    mk("cusip[dddddddd,history=300]", "cusip", dict(classes="dddddddd", history=300))
    mk("sedol[dddddd,history=300]", "sedol", dict(classes="dddddd", history=300))
    mk("isin[US,ddddddddd,history=300]", "isin", dict(prefix="US", classes="ddddddddd", history=300))
    mk("isin_badprefix", "isin_badprefix", {}, mode="fresh", wall_s=300)
    # the interpreter run with -O / PYTHONOPTIMIZE (assert statements compiled away): nothing the property states may rest on an assert
    mk("isin_badprefix[python -O]", "isin_badprefix", dict(noassert=True), mode="fresh", wall_s=300)
    mk("noassert_digits[sedol,dddddd]", "noassert_digits", dict(kind="sedol", classes="dddddd"))
    if full:
        mk("noassert_digits[cusip,dddddddd]", "noassert_digits", dict(kind="cusip", classes="dddddddd"))
        mk("noassert_digits[isin,ddddddddd]", "noassert_digits", dict(kind="isin", classes="ddddddddd"))
    for n in (0, 8, 10, 11, 13):
        mk(f"wronglen[cusip,{n},python -O]", "wronglen", dict(kind="cusip", n=n, noassert=True), mode="fresh", wall_s=60)
        mk(f"wronglen[isin,{n},python -O]", "wronglen", dict(kind="isin", n=n, noassert=True), mode="fresh", wall_s=60)
    for n in range(0, 14):
        if n != 9:
            mk(f"wronglen[cusip,{n}]", "wronglen", dict(kind="cusip", n=n), mode="fresh", wall_s=60)
        if n != 12:
            mk(f"wronglen[isin,{n}]", "wronglen", dict(kind="isin", n=n), mode="fresh", wall_s=60)
    return out
