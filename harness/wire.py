"""Wire lemma: element tree -> OFXClient.serialize -> bytes -> parse_header -> TreeBuilder -> element tree."""
import xml.etree.ElementTree as ET
from ofxtools import Parser, header
from ofxtools.Client import OFXClient
from sx.models.io import make_source
from sx.models.etree import make_treebuilder
from sx.run import PRINTABLE
from harness.common import NOWS
from harness import c10

VERSIONS_V1 = [102, 103, 151, 160]
VERSIONS_V2 = [200, 201, 202, 203, 210, 211, 220]
TAGS = ["OFX", "SIGNONMSGSRQV1", "SONRQ", "USERID", "A", "A.B", "A_1", "MEMO"]

# ordered tree skeletons with <= 4 nodes: each node is the list of its children
SHAPES = {
    "1": [],
    "2": [[]],
    "3a": [[], []],
    "3b": [[[]]],
    "4a": [[], [], []],
    "4b": [[[]], []],
    "4c": [[], [[]]],
    "4d": [[[], []]],
    "4e": [[[[]]]],
}


class FakeOFX:
    """stands for a models.OFX instance: serialize() only calls to_etree() on it"""

    def __init__(self, tree):
        self.tree = tree

    def to_etree(self):
        return self.tree


def build_tree(ctx, shape, nchars, tagmode, rest_chars=1):
    """element tree of the given skeleton; childless non-root nodes are data leaves (symbolic text) or empty
    aggregates (symbolic choice); returns (root, spec) where spec mirrors the tree as nested tuples"""
    counter = [0]
    nleaf = [0]

    def mk(children, is_root):
        i = counter[0]
        counter[0] += 1
        if tagmode == "fixed":
            tag = TAGS[i % len(TAGS)] if i else "OFX"
        else:
            tag = "OFX" if is_root else ctx.choice(f"tag{i}", ["A", "A.B", "A_1", "MEMO"][: (2 if tagmode == "two" else 4)])
        e = ET.Element(tag)
        text = None
        kids = []
        if not children and not is_root:
            if ctx.bool(f"leaf{i}"):
                nleaf[0] += 1
                nc = nchars if nleaf[0] == 1 else rest_chars
                n = nc if isinstance(nc, int) else ctx.choice(f"len{i}", list(nc))
                if n == 1:
                    text = ctx.str(f"t{i}", 1, NOWS)
                else:
                    text = ctx.str(f"t{i}a", 1, NOWS) + (ctx.str(f"t{i}m", n - 2, PRINTABLE) if n > 2 else "") + ctx.str(f"t{i}z", 1, NOWS)
                e.text = text
        for ch in children:
            ce, cs = mk(ch, False)
            e.append(ce)
            kids.append(cs)
        return e, (tag, text, kids)
    return mk(SHAPES[shape], True)


def dump(e):
    return (e.tag, e.text, [dump(c) for c in e])


def tree_matches(ctx, got, spec, decode):
    """parsed element `got` has the tag / children of spec and its text decodes to the original text"""
    tag, text, kids = spec
    conds = [got.tag == tag, len(got) == len(kids)]
    if len(got) != len(kids):
        return False
    if text is None:
        conds.append(got.text is None or got.text.strip() == "")
    else:
        if got.text is None:
            return False
        conds.append(decode(got.text) == text)
    for g, k in zip(got, kids):
        conds.append(tree_matches(ctx, g, k, decode))
    return ctx.all(conds)


def has_empty_aggregate(spec, is_root=True):
    tag, text, kids = spec
    if text is None and not kids:          # the root included: an empty document root is an empty aggregate like any other
        return True
    return any([has_empty_aggregate(k, False) for k in kids])


def leaf_named_like_parent(spec):
    """a data element carrying the name of the aggregate that encloses it: no OFX aggregate declares such a child, and
    without end tags the notation itself cannot tell the leaf's optional end tag from its parent's"""
    tag, text, kids = spec
    return any([(k[1] is not None and k[0] == tag) or leaf_named_like_parent(k) for k in kids])


def h_wire(ctx, shape, major, nchars, tagmode, rest_chars=1):
    root, spec = build_tree(ctx, shape, nchars, tagmode, rest_chars)
    if leaf_named_like_parent(spec):
        return                      # outside the documents the property ranges over (see META assumptions)
    if major == 1:
        version = ctx.int("version", 100, 199)          # every three-digit 1xx version
    else:
        version = ctx.int("version", 200, 220)
        ctx.assume(ctx.any([version == v for v in VERSIONS_V2]))
    pretty = ctx.bool("prettyprint")
    close = ctx.bool("close_elements")
    if major == 2 and not close:
        refused = False
        try:
            OFXClient("http://x", version=version, prettyprint=pretty, close_elements=close)
        except ValueError:
            refused = True
        ctx.check("versions 2xx refuse to omit end tags", refused)
        return
    if not close and ctx.known("C01-unclosed-empty-aggregate", has_empty_aggregate(spec)):
        return
    client = OFXClient("http://x", version=version, prettyprint=pretty, close_elements=close)
    data = client.serialize(FakeOFX(root))
    ctx.observe("bytes", data)
    hdr, msg = header.parse_header(make_source(data))
    ctx.check("the header of the written file carries the configured version", hdr.version == version)
    tb = make_treebuilder(Parser.TreeBuilder, ctx.mode == "sym")
    out = None
    try:
        tb.feed(msg)
        out = tb.close()
    except (SyntaxError, AssertionError, IndexError):
        out = None
    ctx.check("the library's parser accepts what the library's serializer wrote", out is not None)
    if out is None:
        return
    ctx.observe("tree", dump(out))
    ctx.check("parsed tree has the same tags, nesting and order, and every leaf text decodes to the original",
              tree_matches(ctx, out, spec, lambda t: c10.ref_unescape(ctx, t)))


def h_wire_long(ctx, major, total):
    """a file of several kilobytes whose data contains runs of non-ASCII characters around the 4096 / 8192 byte marks (both byte
    parities), so that some multi-byte character straddles any block boundary a reader may use there"""
    version = ctx.choice("version", [102, 160] if major == 1 else [203, 220])
    pretty = ctx.bool("prettyprint")
    close = ctx.bool("close_elements") if major == 1 else True
    sym = ctx.str("ch", 1, [(0xA1, 0xFF), (0x20AC, 0x20AC)])
    run = sym + "\u00e9\u0416\u03a9" * 60 + "x" + "\u00e9\u0416\u20ac" * 60          # 2- and 3-byte characters, parity flipped in the middle
    line = "Lorem ipsum dolor sit amet 0123456789 "
    root = ET.Element("OFX")
    texts = []
    n_lines = total // 64
    for i in range(n_lines):
        near = any([abs(i * 64 - m) < 2500 for m in (4096, 8192, 16384)])
        t = (run[(i % 7):(i % 7) + 48] if near else (line + "%04d" % i))
        texts.append(t)
        ET.SubElement(root, "MEMO").text = t
    client = OFXClient("http://x", version=version, prettyprint=pretty, close_elements=close)
    data = client.serialize(FakeOFX(root))
    hdr, msg = header.parse_header(make_source(data))
    tb = make_treebuilder(Parser.TreeBuilder, ctx.mode == "sym")
    out = None
    try:
        tb.feed(msg)
        out = tb.close()
    except (SyntaxError, AssertionError, IndexError):
        out = None
    ctx.check("the library's parser accepts what the library's serializer wrote", out is not None)
    if out is None:
        return
    ctx.check("parsed tree has the same tags, nesting and order, and every leaf text decodes to the original",
              len(out) == n_lines and ctx.all([c10.ref_unescape(ctx, (out[i].text or "")) == texts[i] for i in range(n_lines)]))


def instances_wire(tier, seed, mk):
    full = tier != "quick"
    out = []
    shapes = ["2", "3a", "3b", "4b"] if not full else list(SHAPES)
    for sh in shapes:
        for major in (1, 2):
            mk(f"wire[{sh},v{major}]", "wire", dict(shape=sh, major=major, nchars=2 if not full else [1, 2, 3], tagmode="fixed" if not full else "two", rest_chars=1 if not full else 2),
               max_paths=60000, wall_s=300 if not full else 1500, timeout_ms=20000)
    for major in (1, 2):
        mk(f"wire_long[v{major}]", "wire_long", dict(major=major, total=10000 if not full else 20000), max_paths=2000, wall_s=600)
    return out
