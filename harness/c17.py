"""C17 - parsing, converting and writing are pure, repeatable (thread schedules: see META.assumptions)."""
import datetime, functools, copy
import xml.etree.ElementTree as ET
import ofxtools
from ofxtools import Types, utils, Parser, header, models
from ofxtools.models.base import Aggregate
from sx import rt
from sx.models.io import make_source
from sx.models.etree import make_treebuilder
import ofxgen
from harness.common import try_convert, try_construct, same_model, sym_value, NOWS
from harness import c03, c09

PID = "C17"


# ---------------------------------------------------------------- fingerprints (native)
def tree_fp(e):
    return (id(e), e.tag if isinstance(e.tag, str) else id(e.tag), e.text if isinstance(e.text, str) or e.text is None else id(e.text),
            e.tail if isinstance(e.tail, str) or e.tail is None else id(e.tail), tuple(sorted(e.attrib.items())), tuple(tree_fp(c) for c in e))


def inst_fp(a):
    if isinstance(a, Aggregate):
        return (id(a), type(a).__name__, tuple((k, inst_fp(v)) for k, v in sorted(a.__dict__.items())), tuple(inst_fp(x) for x in list.__iter__(a)))
    return a if isinstance(a, (str, int, bool, type(None))) else (type(a).__name__, id(a) if isinstance(a, rt.Sym) else repr(a))


def _fn_name(f):
    f = getattr(f, "__func__", f)
    return getattr(f, "__qualname__", repr(f))


def class_state_fp():
    """class-level state of the library: converter objects, class attributes, dispatch registries, module globals"""
    out = []
    for K in ofxgen.all_classes() + [header.OFXHeaderV1, header.OFXHeaderV2]:
        for name, v in sorted(vars(K).items()):
            if isinstance(v, Types.Element):
                out.append((K.__name__, name, type(v).__name__, tuple(sorted((k, repr(x) if not isinstance(x, type) else x.__name__) for k, x in vars(v).items()))))
            elif name in ("optionalMutexes", "requiredMutexes"):
                out.append((K.__name__, name, repr(v)))
    for T in (Types.Bool, Types.String, Types.NagString, Types.OneOf, Types.Integer, Types.Decimal, Types.DateTime, Types.Time, Types.SubAggregate, Types.ListAggregate):
        for name, v in sorted(vars(T).items()):
            if isinstance(v, functools.singledispatchmethod):
                reg = v.dispatcher.registry
                out.append((T.__name__, name, tuple(sorted((getattr(k, "__name__", repr(k)), _fn_name(f)) for k, f in reg.items()))))
            elif not callable(v) and not name.startswith("__"):
                out.append((T.__name__, name, repr(v)))
    for T in (Parser.TreeBuilder, Parser.OFXTree, Aggregate, header.OFXHeaderV1, header.OFXHeaderV2, header.OFXHeaderBase):
        for name, v in sorted(vars(T).items()):
            if not callable(v) and not isinstance(v, (classmethod, staticmethod, property)) and not name.startswith("__"):
                out.append((T.__name__, name, repr(v)[:200]))
    for mod in (utils, Types, header, Parser):
        for name, v in sorted(vars(mod).items()):
            if isinstance(v, (dict, list, tuple, set, str, int)) and not name.startswith("__"):
                out.append((mod.__name__, name, repr(v)[:200]))
    out.append(("models", tuple(sorted(n for n in vars(ofxtools.models) if n.isupper()))))
    return tuple(out)


rt.NATIVE_FUNCS.update({tree_fp, inst_fp, class_state_fp})


# ---------------------------------------------------------------- converting a document
def h_convert(ctx, cls, attrs):
    K = ofxgen.class_by_name(cls)
    attr = attrs[ctx.choice("attr", list(range(len(attrs))))]
    conv = K.spec[attr]
    base = c03.rich_instance(K, attr)
    tree = base.to_etree()
    for ch in tree:
        if ch.tag == ofxgen.wire_tag(K, attr):
            ch.text = c03.lexical(ctx, conv)[0] if ctx.bool("valid_text") else ctx.str("junk", 2, "!-/:-@")
    fp_tree, fp_cls = tree_fp(tree), class_state_fp()
    r1, _ = try_convert(tree)
    ctx.check("converting does not modify the element tree it is given", tree_fp(tree) == fp_tree)
    ctx.check("converting does not modify class-level state of the library", class_state_fp() == fp_cls)
    # an unrelated workload in between: another class, a failing document, a date-time conversion
    other = ofxgen.class_by_name("STMTTRN" if cls != "STMTTRN" else "INVBUY")
    try_convert(ET.Element(other.__name__))
    try_convert(ET.Element("NOSUCHTAG"))
    Types.DateTime().convert("20200101120000.000[-5:EST]")
    r2, _ = try_convert(tree)
    ctx.check("the same input gives an equal result whatever was processed in between",
              (r1 is None and r2 is None) or (r1 is not None and r2 is not None and same_model(ctx, r1, r2)))
    ctx.check("repetition leaves the input untouched", tree_fp(tree) == fp_tree and class_state_fp() == fp_cls)


# ---------------------------------------------------------------- a long workload between two conversions of one text
def other_texts(kind, n):
    """n distinct valid texts of the kind (built natively)"""
    import datetime as _dt
    if kind in ("DateTime", "Time"):
        t0 = _dt.datetime(1999, 1, 1, 7, 30)
        if kind == "DateTime":
            return [(t0 + _dt.timedelta(days=i, minutes=7 * i)).strftime("%Y%m%d%H%M%S") for i in range(n)]
        return [(t0 + _dt.timedelta(seconds=61 * i)).strftime("%H%M%S") for i in range(n)]
    if kind == "Decimal":
        return ["%d.%02d" % (i, i % 100) for i in range(n)]
    if kind == "Integer":
        return [str(1000 + i) for i in range(n)]
    return ["text %04d" % i for i in range(n)]


rt.NATIVE_FUNCS.add(other_texts)


def h_long_workload(ctx, kind, n):
    """one text is converted, then n distinct other texts through the same kind of converter (a year of daily postings,
    hundreds of payees ...), then the first text again: same value"""
    from harness.common import same_value
    if kind == "DateTime":
        conv, text = Types.DateTime(), "202002" + ctx.str("dd", 2, "0-9") + "093000.000[-5:EST]"
        ctx.assume(ctx.all([int(text[6:8]) >= 1, int(text[6:8]) <= 29]))
    elif kind == "Time":
        conv, text = Types.Time(), "09" + ctx.str("mm", 2, "0-5") + "00"
    elif kind == "Decimal":
        conv, text = Types.Decimal(), ctx.str("d", 2, "0-9") + ".5"
    elif kind == "Integer":
        conv, text = Types.Integer(), ctx.str("d", 3, "0-9")
    else:
        conv, text = Types.String(32), "x" + ctx.str("s", 2, NOWS)
    fp_cls = class_state_fp()
    v0 = conv.convert(text)
    for o in other_texts(kind, n):
        conv.convert(o)
        getattr(Types, kind)(32).convert(o) if kind == "String" else getattr(Types, kind)().convert(o)
    v1 = conv.convert(text)
    v2 = (Types.String(32) if kind == "String" else getattr(Types, kind)()).convert(text)
    ctx.check("the same input gives an equal result whatever was processed in between", same_value(ctx, v0, v1) and same_value(ctx, v0, v2))
    ctx.check("converting does not modify class-level state of the library", class_state_fp() == fp_cls)


# ---------------------------------------------------------------- writing an instance
def h_serialize(ctx, cls):
    K = ofxgen.class_by_name(cls)
    args, kwargs = ofxgen.base_instance(K)
    kw = dict(kwargs)
    n = 0
    for a, conv in K.spec_no_listaggregates.items():
        if n >= 1 or a not in kw or isinstance(conv, (Types.SubAggregate, Types.DateTime)):
            continue
        trial = dict(kw)
        trial[a] = sym_value(ctx, conv, "v")
        if try_construct(K, args, trial)[0] is not None:
            kw = trial
            n += 1
    inst, _ = try_construct(K, args, kw)
    if inst is None:
        return
    fp_i, fp_cls = inst_fp(inst), class_state_fp()
    t1 = inst.to_etree()
    ctx.check("writing does not modify the model instance", inst_fp(inst) == fp_i)
    ctx.check("writing does not modify class-level state of the library", class_state_fp() == fp_cls)
    Types.DateTime().convert("20200101")
    t2 = inst.to_etree()
    ctx.check("writing the same instance twice gives the same tree", ET.tostring(t1, encoding="unicode") == ET.tostring(t2, encoding="unicode"))
    b1, _ = try_convert(t1)
    b2, _ = try_convert(t2)
    ctx.check("both trees read back to equal models", b1 is not None and b2 is not None and same_model(ctx, b1, b2))


def h_client_serialize(ctx):
    """the client's serializer on one request model, with the per-call overrides ofxget's scan uses: the model is not
    modified and the same call gives the same bytes whatever was serialized in between"""
    from ofxtools.Client import OFXClient
    from ofxtools import models
    client = OFXClient("http://x", userid="u", clientuid="CUID-1", org="O", fid="F", version=203)
    ofx = models.OFX(signonmsgsrqv1=client.signon(ctx.str("pw", 1, NOWS)))
    v1 = ctx.choice("version_in_between", [102, 103, 151, 203])
    v2 = ctx.choice("version", [102, 103, 160, 200, 220])
    pretty, close = ctx.bool("prettyprint"), (ctx.bool("close_elements") if v2 < 200 else True)
    fp_i, fp_cls = inst_fp(ofx), class_state_fp()
    first = client.serialize(ofx, version=v2, oldfileuid="NONE", newfileuid="NONE", prettyprint=pretty, close_elements=close)
    ctx.check("writing does not modify the model instance", inst_fp(ofx) == fp_i)
    client.serialize(ofx, version=v1, oldfileuid="NONE", newfileuid="NONE", prettyprint=not pretty, close_elements=True)
    ctx.check("writing does not modify the model instance", inst_fp(ofx) == fp_i)
    again = client.serialize(ofx, version=v2, oldfileuid="NONE", newfileuid="NONE", prettyprint=pretty, close_elements=close)
    ctx.check("writing the same instance twice gives the same bytes", first == again)
    ctx.check("writing does not modify class-level state of the library", class_state_fp() == fp_cls)


# ---------------------------------------------------------------- parsing bytes
def h_parse(ctx, n):
    body = "<OFX><A>" + ctx.str("d", n, [(0x21, 0x3B), (0x3D, 0x7E), (0xA1, 0xFF)]) + "</A></OFX>"
    data = (str(header.make_header(102)) + body).encode("latin_1") if False else ("OFXHEADER:100\r\nDATA:OFXSGML\r\nVERSION:102\r\nSECURITY:NONE\r\nENCODING:USASCII\r\nCHARSET:ISO-8859-1\r\nCOMPRESSION:NONE\r\nOLDFILEUID:NONE\r\nNEWFILEUID:NONE\r\n\r\n" + body).encode("latin_1")
    src = make_source(data)
    items_before = list(src.items) if hasattr(src, "items") else src.getvalue()
    fp_cls = class_state_fp()
    outs = []
    for k in range(2):
        src.seek(0)
        hdr, msg = header.parse_header(src)
        tb = make_treebuilder(Parser.TreeBuilder, ctx.mode == "sym")
        tb.feed(msg)
        root = tb.close()
        outs.append((hdr.version, msg, root[0].text))
        if k == 0:
            # failing inputs in between: a truncated body, a wrong end tag, text after an end tag
            for bad in ("<OFX><A>1</A>", "<OFX><A></B></OFX>", "<OFX></OFX>x"):
                tb2 = make_treebuilder(Parser.TreeBuilder, ctx.mode == "sym")
                try:
                    tb2.feed(bad)
                    tb2.close()
                except (SyntaxError, AssertionError, IndexError):
                    pass
    items_after = list(src.items) if hasattr(src, "items") else src.getvalue()
    ctx.check("parsing does not modify the source bytes", len(items_before) == len(items_after) and all([a is b or a == b for a, b in zip(items_before, items_after)]) if not isinstance(items_before, bytes) else items_before == items_after)
    ctx.check("parsing twice gives the same header, body and tree", outs[0][0] == outs[1][0] and outs[0][1] == outs[1][1] and outs[0][2] == outs[1][2])
    ctx.check("parsing does not modify class-level state of the library", class_state_fp() == fp_cls)


def h_parse_v2(ctx, n):
    """an OFXv2 file without an encoding attribute, parsed before and after a file that declares another encoding"""
    body = "<OFX><A>" + ctx.str("d", n, [(0x21, 0x3B), (0x3D, 0x7E), (0xA1, 0xFF), (0x20AC, 0x20AC)]) + "</A></OFX>"
    data = ('<?xml version="1.0" standalone="no"?>\r\n<?OFX OFXHEADER="200" VERSION="203" SECURITY="NONE" OLDFILEUID="NONE" NEWFILEUID="NONE"?>\r\n' + body).encode("utf_8")
    other = b'<?xml version="1.0" encoding="ISO-8859-1"?>\r\n<?OFX OFXHEADER="200" VERSION="203" SECURITY="NONE" OLDFILEUID="NONE" NEWFILEUID="NONE"?>\r\n<OFX><A>\xe9</A></OFX>'
    fp_cls = class_state_fp()
    outs = []
    for k in range(2):
        hdr, msg = header.parse_header(make_source(data))
        outs.append(msg)
        if k == 0:
            try:
                header.parse_header(make_source(other))
            except (UnicodeDecodeError, SyntaxError):
                pass
    ctx.check("the same OFXv2 bytes give the same text whatever was parsed in between", outs[0] == outs[1] and outs[0] == body)
    ctx.check("parsing does not modify class-level state of the library", class_state_fp() == fp_cls)


# ---------------------------------------------------------------- the one shared write: dispatch re-registration
def h_dispatch(ctx):
    """DateTime.normalize_to_gmt re-registers _unconvert_datetime on the class-level dispatcher, bound to whichever
    instance converted last: the result of unconvert must not depend on that instance (non-interference in self)"""
    a = Types.DateTime()
    b = Types.DateTime(required=True)
    tz = ctx.tz("tz", -720, 840, None)
    v = ctx.datetime("v", 1990, 2100, tz)
    ref = Types.DateTime._unconvert_datetime(b, v)
    a.convert("20200101120000")          # registers a's bound method for datetime on DateTime.unconvert
    got1 = b.unconvert(v)
    b.convert("20210101")                # now b's
    got2 = a.unconvert(v)
    ctx.check("unconvert does not depend on which converter instance converted a string last", got1 == ref and got2 == ref)
    none_ok = False
    try:
        b.unconvert(None)
    except ValueError:
        none_ok = True
    ctx.check("required-ness of the instance being used is still honoured after re-registration", none_ok and a.unconvert(None) is None)


HARNESSES = dict(long_workload=h_long_workload, client_serialize=h_client_serialize, convert=h_convert, serialize=h_serialize, parse=h_parse, parse_v2=h_parse_v2, dispatch=h_dispatch)

META = dict(
    bounds=dict(convert="per class: the class's document with one element text symbolic (its type's lexical space, or 2 junk characters), converted, an unrelated workload, converted again",
                serialize="per class: instance with one symbolic leaf value written twice around a date-time conversion",
                parse="v1 file with 1-2 symbolic body characters parsed twice from the same source object",
                dispatch="symbolic instant 1990-2100 x symbolic whole-minute offset"),
    models=["fingerprints of the input objects and of the library's class-level state (converter objects, class attributes, dispatch registries by "
            "underlying function, module constants) taken natively before and after every symbolic path"],
    assumptions=["No write to shared or input state on any explored path => the result depends only on the input, whatever ran before or runs concurrently; "
                 "CPython-level thread interleavings inside functools.singledispatch's cache and the warnings registry are NOT encoded (outside the claim), "
                 "nor is 1..16-thread stress as such",
                 "logging handlers and the per-module __warningregistry__ are environment, not library state"],
)


def instances(tier, seed):
    out = []
    full = tier != "quick"

    def mk(name, h, params, **opts):
        opts.setdefault("wall_s", 180 if not full else 900)
        opts.setdefault("max_paths", 5000 if not full else 50000)
        out.append(dict(name=name, harness=h, fn=HARNESSES[h], params=params, opts=opts))
    classes = ofxgen.pick_classes(tier, seed, core_only=not full)
    if not full:
        import random
        rnd = random.Random(seed)
        classes = rnd.sample(classes, min(40, len(classes)))
    special = [K for K in ofxgen.all_classes() if ofxgen.renamed_attrs(K)]
    classes = special + [K for K in classes if K not in special]
    for K in classes:
        n = K.__name__
        els = c03.pick_elements(K, False, seed)[:3]
        els = [a for a in ofxgen.renamed_attrs(K) if a in [x for x, _ in c03.elements_of(K)]] + els
        if els:
            mk(f"convert[{n}]", "convert", dict(cls=n, attrs=els))
        mk(f"serialize[{n}]", "serialize", dict(cls=n))
    mk("client_serialize", "client_serialize", {})
    for kind in ("DateTime", "Time", "Decimal", "Integer", "String"):
        mk(f"long_workload[{kind}]", "long_workload", dict(kind=kind, n=400 if not full else 1200))
    for n in (1, 2):
        mk(f"parse[{n}]", "parse", dict(n=n))
        mk(f"parse_v2[{n}]", "parse_v2", dict(n=n))
    mk("dispatch", "dispatch", {}, timeout_ms=30000)
    return out
