import sys, os, argparse, importlib, time, warnings


def load(pid):
    return importlib.import_module("harness." + pid.lower())


def all_harness_fns():
    out = {}
    d = os.path.dirname(__file__)
    for fn in sorted(os.listdir(d)):
        if fn.startswith("c") and fn.endswith(".py") and fn[1:3].isdigit():
            m = importlib.import_module("harness." + fn[:-3])
            out.update(getattr(m, "HARNESSES", {}))
    return out


def main(argv):
    sys.setrecursionlimit(20000)
    # trials of seeded changes only (never set by the registered commands): analyse another checkout of the repository
    # and keep its evidence / replay files apart from the real ones
    alt = os.environ.get("VERIF_REPO")
    if alt:
        sys.path.insert(0, alt)
        import ofxtools
        assert ofxtools.__file__.startswith(alt), ofxtools.__file__
    if argv and argv[0] == "replay":
        from sx import run
        import sx.models  # noqa
        import json
        pid = json.load(open(argv[1]))["property"]
        return run.replay_file(argv[1], load(pid).HARNESSES)
    ap = argparse.ArgumentParser()
    ap.add_argument("pid")
    ap.add_argument("--tier", default=os.environ.get("VERIF_TIER", "quick"))
    ap.add_argument("--only", default=None, help="substring filter on instance names (debugging)")
    ap.add_argument("--jobs", default=None)
    a = ap.parse_args(argv)
    if a.jobs:
        os.environ["VERIF_JOBS"] = a.jobs
    seed = int(os.environ.get("VERIF_SEED", "0"))
    import sx.models  # noqa
    from sx import run
    mod = load(a.pid)
    insts = mod.instances(a.tier, seed)
    if a.only:
        insts = [i for i in insts if a.only in i["name"]]
    meta = dict(getattr(mod, "META", {}))
    meta["harness_fns"] = mod.HARNESSES
    if hasattr(mod, "pre"):
        extra = mod.pre(a.tier, seed) or {}
        for k, v in extra.items():
            meta.setdefault(k, [])
            meta[k] = list(meta[k]) + list(v)
    return run.run_property(mod.PID, insts, a.tier, seed, meta)


if __name__ == "__main__":
    sys.exit(main(sys.argv[1:]))
