"""C02 - all wire renderings of one OFX body parse to the same, faithful element tree."""
from ofxtools import Parser
from sx.models.etree import make_treebuilder
from harness.render import sym_tree, render, same_tree
from harness.wire import SHAPES, dump

PID = "C02"


def parse(ctx, text):
    tb = make_treebuilder(Parser.TreeBuilder, ctx.mode == "sym")
    try:
        tb.feed(text)
        return tb.close(), None
    except (SyntaxError, AssertionError, IndexError) as e:
        return None, type(e).__name__


def failing_prelude(ctx):
    """an arbitrary preceding workload: bodies that the parser must refuse (nothing of them may leak into the next parse)"""
    for bad in ("<OFX><A>1</A>", "<OFX><A></B></OFX>", "<OFX></OFX>x", "</Z>"):
        parse(ctx, bad)


def h_render(ctx, shape, taglen, datalen, maxgap, cdata, tagprefix=""):
    failing_prelude(ctx)
    spec = sym_tree(ctx, shape, taglen, datalen, tagprefix=tagprefix)
    text = render(ctx, spec, maxgap, cdata)
    ctx.observe("text", text)
    out, err = parse(ctx, text)
    ctx.observe("err", err)
    ctx.check("every rendering of a well-formed body is accepted", out is not None)
    if out is None:
        return
    ctx.observe("tree", dump(out))
    ctx.check("the parsed tree has exactly the tags, nesting, order and trimmed data of the document", same_tree(ctx, out, spec))


HARNESSES = dict(render=h_render, long_body=None)

META = dict(
    bounds=dict(trees="all ordered tree skeletons with <= 3 (quick) / 4 (thorough) nodes; childless nodes are data leaves or empty aggregates (symbolic)",
                tags="1-2 symbolic characters over A-Z 0-9 . _ (whether two nodes share a name is decided by the solver); plus names of 32-33 characters (31 fixed + 1-2 symbolic)",
                data="1-2 (quick) / 1-3 (thorough) symbolic characters over the printable alphabet minus '<', non-blank ends",
                rendering="per data element: end tag present or not, CDATA-wrapped or not; white space of symbolic length 0..1 (quick) / 0..2 (thorough) over {space, tab, CR, LF} between tokens"),
    models=["re (backtracking matcher over the real TreeBuilder.regex incl. the (?P=tag) back-reference and lazy quantifier)", "str.strip/startswith",
            "C-faithful TreeBuilder state machine"],
    assumptions=["oracle = the source tree from which an independent renderer (harness/render.py) produced the text"],
)


def h_long_body(ctx, total):
    """a body of several thousand characters (a statement with a few hundred data elements): the element whose data touches or
    straddles a power-of-two offset (where block-wise scanners cut) and its neighbours come out like all the others"""
    boundary = ctx.choice("boundary", [4096, 8192] if total < 17000 else [4096, 8192, 16384])
    shift = ctx.choice("shift", [-3, -1, 0])
    closed = ctx.bool("end_tags")
    sep = ctx.choice("sep", ["", "\r\n"])
    data = ctx.str("d", 3, [(0x30, 0x39), (0x41, 0x5A)])
    unit = len("<A>0000000000") + (len("</A>") if closed else 0) + len(sep)
    k = (boundary + shift - len("<OFX>") - len("<A>")) // unit            # index of the element whose data starts near the boundary
    pad = (boundary + shift - len("<OFX>") - len("<A>")) - k * unit       # extra characters in front of it (put into element k-1's data)
    n = total // unit
    parts, want = [], []
    for i in range(n):
        t = ("%010d" % i) if i != k else data
        if i == k - 1:
            t = t + "x" * pad
        want.append(t)
        parts.append("<A>" + t + ("</A>" if closed else "") + sep)
    text = "<OFX>" + "".join(parts) + "</OFX>"
    out, err = parse(ctx, text)
    ctx.check("a well-formed rendering is accepted", out is not None)
    if out is None:
        return
    ctx.check("same tree: no element dropped, duplicated or re-parented", len(out) == n and ctx.all([ch.tag == "A" and len(ch) == 0 for ch in out]))
    if len(out) != n:
        return
    near = [i for i in range(max(0, k - 3), min(n, k + 4))] + [0, n - 1]
    ctx.check("same data text for the elements around the offset and at both ends", ctx.all([(out[i].text or "").strip() == want[i] for i in near]))


def instances(tier, seed):
    out = []
    full = tier != "quick"

    def mk(name, params, **opts):
        opts.setdefault("wall_s", 300 if not full else 1500)
        opts.setdefault("max_paths", 100000)
        out.append(dict(name=name, harness="render", fn=h_render, params=params, opts=opts))
    shapes = ["1", "2", "3a", "3b"] if not full else list(SHAPES)
    for sh in shapes:
        for cd in (False, True):
            mk(f"render[{sh},cdata={cd}]", dict(shape=sh, taglen=1 if not full else [1, 2], datalen=[1, 2] if not full else [1, 2, 3],
                                                maxgap=1 if not full else 2, cdata=cd))
    for total in ((9000,) if not full else (9000, 20000)):
        out.append(dict(name=f"long_body[{total}]", harness="long_body", fn=h_long_body, params=dict(total=total), opts=dict(wall_s=900, max_paths=5000)))
    # long tag names: 31 fixed characters + 1-2 symbolic ones (the notation sets no limit; 32 is where fixed-size buffers end)
    for sh in (["3b"] if not full else ["2", "3a", "3b", "4d"]):
        mk(f"render[{sh},tags of 32-33 chars]", dict(shape=sh, taglen=[1, 2], datalen=1, maxgap=0 if not full else 1, cdata=False,
                                                     tagprefix="ABCDEFGHIJKLMNOPQRSTUVWXYZ01234"))
    return out


HARNESSES["long_body"] = h_long_body
