"""C02 - all wire renderings of one OFX body parse to the same, faithful element tree."""
from ofxtools import Parser
from sx.models.etree import make_treebuilder
from harness.render import sym_tree, render, same_tree
from harness.wire import SHAPES, dump

PID = "C02"


def parse(ctx, text):
    tb = make_treebuilder(Parser.TreeBuilder, ctx.mode == "sym")
    try:
        tb.feed(text)
        return tb.close(), None
    except (SyntaxError, AssertionError, IndexError) as e:
        return None, type(e).__name__


def failing_prelude(ctx):
    """an arbitrary preceding workload: bodies that the parser must refuse (nothing of them may leak into the next parse)"""
    for bad in ("<OFX><A>1</A>", "<OFX><A></B></OFX>", "<OFX></OFX>x", "</Z>"):
        parse(ctx, bad)


def h_render(ctx, shape, taglen, datalen, maxgap, cdata, tagprefix=""):
    failing_prelude(ctx)
    spec = sym_tree(ctx, shape, taglen, datalen, tagprefix=tagprefix)
    text = render(ctx, spec, maxgap, cdata)
    ctx.observe("text", text)
    out, err = parse(ctx, text)
    ctx.observe("err", err)
    ctx.check("every rendering of a well-formed body is accepted", out is not None)
    if out is None:
        return
    ctx.observe("tree", dump(out))
    ctx.check("the parsed tree has exactly the tags, nesting, order and trimmed data of the document", same_tree(ctx, out, spec))


HARNESSES = dict(render=h_render)

META = dict(
    bounds=dict(trees="all ordered tree skeletons with <= 3 (quick) / 4 (thorough) nodes; childless nodes are data leaves or empty aggregates (symbolic)",
                tags="1-2 symbolic characters over A-Z 0-9 . _ (whether two nodes share a name is decided by the solver); plus names of 32-33 characters (31 fixed + 1-2 symbolic)",
                data="1-2 (quick) / 1-3 (thorough) symbolic characters over the printable alphabet minus '<', non-blank ends",
                rendering="per data element: end tag present or not, CDATA-wrapped or not; white space of symbolic length 0..1 (quick) / 0..2 (thorough) over {space, tab, CR, LF} between tokens"),
    models=["re (backtracking matcher over the real TreeBuilder.regex incl. the (?P=tag) back-reference and lazy quantifier)", "str.strip/startswith",
            "C-faithful TreeBuilder state machine"],
    assumptions=["oracle = the source tree from which an independent renderer (harness/render.py) produced the text"],
)


def instances(tier, seed):
    out = []
    full = tier != "quick"

    def mk(name, params, **opts):
        opts.setdefault("wall_s", 300 if not full else 1500)
        opts.setdefault("max_paths", 100000)
        out.append(dict(name=name, harness="render", fn=h_render, params=params, opts=opts))
    shapes = ["1", "2", "3a", "3b"] if not full else list(SHAPES)
    for sh in shapes:
        for cd in (False, True):
            mk(f"render[{sh},cdata={cd}]", dict(shape=sh, taglen=1 if not full else [1, 2], datalen=[1, 2] if not full else [1, 2, 3],
                                                maxgap=1 if not full else 2, cdata=cd))
    # long tag names: 31 fixed characters + 1-2 symbolic ones (the notation sets no limit; 32 is where fixed-size buffers end)
    for sh in (["3b"] if not full else ["2", "3a", "3b", "4d"]):
        mk(f"render[{sh},tags of 32-33 chars]", dict(shape=sh, taglen=[1, 2], datalen=1, maxgap=0 if not full else 1, cdata=False,
                                                     tagprefix="ABCDEFGHIJKLMNOPQRSTUVWXYZ01234"))
    return out
