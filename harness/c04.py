"""C04 - every constraint a model class declares is enforced at every way of building it."""
import warnings
import xml.etree.ElementTree as ET
from ofxtools import Types
from ofxtools.models.base import Aggregate
import ofxgen

PID = "C04"
REJECT = (ValueError, TypeError, SyntaxError, ArithmeticError, AssertionError)


def constructs(K, args, kw):
    try:
        with warnings.catch_warnings(record=True):
            warnings.simplefilter("always")
            K(*args, **kw)
    except REJECT:
        return False
    return True


def converts(tree):
    try:
        with warnings.catch_warnings(record=True):
            warnings.simplefilter("always")
            Aggregate.from_etree(tree)
    except REJECT:
        return False
    return True


def touch_bases(K):
    """an arbitrary preceding workload: the declarations of K's base classes are consulted before K's"""
    for B in reversed(K.__mro__[1:]):
        if isinstance(B, type) and issubclass(B, Aggregate):
            B.spec
            B.listaggregates
    return K


def has_custom_validation(K):
    for b in K.__mro__:
        if b is Aggregate:
            return False
        if "validate_args" in vars(b) or "__init__" in vars(b):
            return True
    return False


def child_node(K, attr, value):
    """ET node for child `attr` of K holding python value `value` (written by the real converter, natively)"""
    conv = K.spec[attr]
    if isinstance(value, Aggregate):
        return value.to_etree()
    e = ET.Element(ofxgen.wire_tag(K, attr))
    e.text = conv.unconvert(value)
    return e


# ---------------------------------------------------------------- mutex groups, keyword route and tree route
def h_mutex(ctx, cls, kind, gi):
    K = touch_bases(ofxgen.class_by_name(cls))
    args, kwargs = ofxgen.base_instance(K)
    group = ofxgen.all_mutexes(K, kind)[gi]
    spec = K.spec_no_listaggregates
    members = [m for m in group if m in spec]
    if len(members) < len(group):
        return      # a group naming a repeated or undeclared child: reported under C13
    kw = {k: v for k, v in kwargs.items() if k not in group}
    count = 0
    spelled = {}
    for m in members:
        if ctx.bool("p_" + m):
            kw[m] = ofxgen.value_for(K, m)
            count += 1
    violating = count > 1 if kind == "optionalMutexes" else count != 1
    if violating and kind == "optionalMutexes" and ctx.known("C04-origcurrency-mutex-shadowed"):
        return
    ok = constructs(K, args, kw)
    ctx.check("keyword construction with an exclusivity group violated is rejected", ctx.implies(violating, not ok))
    if not has_custom_validation(K):
        ctx.check("keyword construction with the group satisfied is accepted", ctx.implies(not violating, ok))
    # a member spelled out without a value (None, or the empty text of a data element) is not a member that is present:
    # whatever is accepted must satisfy the group as an instance
    absent = [m for m in members if m not in kw]
    if absent:
        m0 = absent[ctx.choice("spelled", list(range(len(absent))))]
        # (for character data also: blanks, and entity text that decodes to blanks only)
        blank = ctx.choice("blank", [None, "", " ", "&nbsp;", " &nbsp;", "&#32;"] if isinstance(spec[m0], Types.String) else [None, ""]) \
            if isinstance(spec[m0], (Types.String, Types.OneOf)) else None
        kw2 = dict(kw)
        kw2[m0] = blank
        inst = None
        try:
            with warnings.catch_warnings(record=True):
                warnings.simplefilter("always")
                inst = K(*args, **kw2)
        except REJECT:
            inst = None
        if inst is not None:
            have = len([m for m in members if getattr(inst, m) is not None])
            ctx.check("every instance that exists satisfies its exclusivity groups (members spelled out without a value do not count)",
                      have <= 1 if kind == "optionalMutexes" else have == 1)
    # same deviation through the element tree
    root = ET.Element(K.__name__)
    for a in K.spec:
        if a in kw:
            root.append(child_node(K, a, kw[a]))
        elif a == (ofxgen.list_attrs(K) or [None])[0]:
            for mem in args:
                root.append(mem.to_etree() if isinstance(mem, Aggregate) else _le(K, mem))
    if len(root) == 0:
        return
    ok2 = converts(root)
    ctx.check("tree conversion with an exclusivity group violated is rejected", ctx.implies(violating, not ok2))
    if not has_custom_validation(K):
        ctx.check("tree conversion with the group satisfied is accepted", ctx.implies(not violating, ok2))


def _le(K, text):
    e = ET.Element(ofxgen.list_attrs(K)[0].upper())
    e.text = text
    return e


# ---------------------------------------------------------------- required children
def h_required(ctx, cls):
    K = touch_bases(ofxgen.class_by_name(cls))
    args, kwargs = ofxgen.base_instance(K)
    req = [a for a, c in K.spec_no_listaggregates.items() if isinstance(c, Types.Element) and getattr(c, "required", False)]
    a = ctx.choice("omit", req)
    kw = {k: v for k, v in kwargs.items() if k != a}
    ctx.check("keyword construction without a required child is rejected", not constructs(K, args, kw))
    root = ofxgen.build(K, args, kwargs).to_etree()
    for ch in list(root):
        if ch.tag == ofxgen.wire_tag(K, a):
            root.remove(ch)
    if len(root):
        ctx.check("tree conversion without a required child is rejected", not converts(root))
    # empty text for a required data element
    if not isinstance(K.spec[a], Types.SubAggregate) and isinstance(K.spec[a], (Types.String, Types.OneOf, Types.Integer)):
        kw2 = dict(kwargs)
        kw2[a] = ""
        ctx.check("empty text for a required element is rejected", not constructs(K, args, kw2))


# ---------------------------------------------------------------- value limits
def _limit_attrs(K):
    out = []
    for a, c in K.spec_no_listaggregates.items():
        if type(c) is Types.String and c.length is not None:
            out.append((a, "string"))
        elif isinstance(c, Types.Integer) and c.length is not None:
            out.append((a, "integer"))
        elif isinstance(c, Types.OneOf) and all(isinstance(v, str) for v in c.valid):
            out.append((a, "oneof"))
    return out


def h_limits(ctx, cls, history=0):
    K = touch_bases(ofxgen.class_by_name(cls))
    args, kwargs = ofxgen.base_instance(K)
    cands = _limit_attrs(K)
    a, kind = cands[ctx.choice("attr", list(range(len(cands))))]
    conv = K.spec[a]
    kw = dict(kwargs)
    # an arbitrary preceding workload: `history` instances whose value for this child differs each time (a long statement)
    for i in range(history):
        hv = {"string": "v%d" % i, "integer": i % 10}.get(kind)
        if hv is not None and (kind != "string" or len(hv) <= conv.length):
            constructs(K, args, dict(kw, **{a: hv}))
    for m in ofxgen.all_mutexes(K, "optionalMutexes") + ofxgen.all_mutexes(K, "requiredMutexes"):
        if a in m:
            for other in m:
                if other != a:
                    kw.pop(other, None)
    base_ok = constructs(K, args, dict(kw, **{a: ofxgen.value_for(K, a)}))
    if kind == "string":
        L = conv.length
        over = ctx.bool("over")
        v = ctx.str("v", L + 1 if over else L, "a-z0-9")
        ok = constructs(K, args, dict(kw, **{a: v}))
        if over:
            ctx.check("string one character beyond its declared length is rejected", not ok)
        elif base_ok:
            ctx.check("string exactly at its declared length is accepted", ok)
    elif kind == "integer":
        n = conv.length
        v = ctx.int("v", 10 ** n - 3, 10 ** n + 3)
        ok = constructs(K, args, dict(kw, **{a: v}))
        if v >= 10 ** n:
            ctx.check("integer with more digits than declared is rejected", not ok)
        elif base_ok:
            ctx.check("integer at the digit limit is accepted", ok)
        # same through text (tree route conversion of the element)
        d = ctx.str("d", n + 1, "0-9")
        ctx.assume(d[0] != "0")
        ctx.check("integer text with one digit too many is rejected", not constructs(K, args, dict(kw, **{a: d})))
    else:
        toks = [t for t in conv.valid]
        mx = min(max(len(t) for t in toks), 3)
        n = ctx.choice("n", list(range(1, mx + 2)))
        v = ctx.str("v", n, "A-Z0-9 ")
        ctx.assume(ctx.all([v != t for t in toks]))
        ctx.check("token outside the declared enumeration is rejected", not constructs(K, args, dict(kw, **{a: v})))
        t = ctx.enum("tok", toks)
        if base_ok:
            ctx.check("every declared token is accepted", constructs(K, args, dict(kw, **{a: t})))


# ---------------------------------------------------------------- sequence order, duplicates, list members (tree route)
def ref_sequence_ok(K, tags):
    """independent validator of a child tag sequence against the declaration: known tags must respect the declared
    order, non-repeatable children occur at most once, list members may repeat and interleave among themselves."""
    spec = list(K.spec)
    lists = set(ofxgen.list_attrs(K))
    prev = -1
    prev_list = False
    seen = set()
    for t in tags:
        a = ofxgen.attr_of_tag(K, t)
        if a is None:
            continue                      # unknown tags are skipped (C07)
        i = spec.index(a)
        is_list = a in lists
        if i <= prev and not (is_list and prev_list):
            return False
        if not is_list:
            if a in seen:
                return False
            seen.add(a)
        prev, prev_list = i, is_list
    return True


def h_sequence(ctx, cls):
    """the base document with one structural edit: swap two adjacent children, duplicate one, or move one"""
    K = touch_bases(ofxgen.class_by_name(cls))
    args, kwargs = ofxgen.base_instance(K)
    # enrich the base instance with up to two optional children so that there is something to reorder
    extra = [a for a, c in K.spec_no_listaggregates.items() if a not in kwargs and isinstance(c, Types.Element)]
    kw = dict(kwargs)
    for a in extra:
        if len(kw) >= len(kwargs) + 2:
            break
        trial = dict(kw, **{a: ofxgen.value_for(K, a)})
        if constructs(K, args, trial):
            kw = trial
    members = list(args)
    la = ofxgen.list_attrs(K)
    if la and not members:
        try:
            members = [ofxgen._member_for(K, la[0], 0)]
        except Exception:
            members = []
        if not constructs(K, members, kw):
            members = list(args)
    root = ofxgen.build(K, members, kw).to_etree()
    n = len(root)
    if n < 1:
        return
    edit = ctx.choice("edit", ["swap", "dup", "move"] if n >= 2 else ["dup"])
    kids = list(root)
    if edit == "swap":
        i = ctx.choice("i", list(range(n - 1)))
        kids[i], kids[i + 1] = kids[i + 1], kids[i]
    elif edit == "dup":
        i = ctx.choice("i", list(range(n)))
        j = ctx.choice("j", list(range(n + 1)))
        kids.insert(j, kids[i])
    else:
        i = ctx.choice("i", list(range(n)))
        j = ctx.choice("j", list(range(n)))
        k = kids.pop(i)
        kids.insert(j, k)
    new = ET.Element(root.tag)
    for k in kids:
        new.append(k)
    valid = ref_sequence_ok(K, [k.tag for k in kids])
    ok = converts(new)
    ctx.check("tree with children out of order or a non-repeatable child duplicated is rejected", ctx.implies(not valid, not ok))
    if not has_custom_validation(K):
        ctx.check("tree whose children respect the declared sequence is accepted", ctx.implies(valid, ok))


def h_listmember(ctx, cls, classes):
    """positional list member of a symbolic class among `classes`: admitted iff its class is a declared list child"""
    K = ofxgen.class_by_name(cls)
    args, kwargs = ofxgen.base_instance(K)
    mname = ctx.choice("member", classes)
    M = ofxgen.class_by_name(mname)
    ma, mk = ofxgen.base_instance(M)
    member = ofxgen.build(M, ma, mk)
    # preceding workload: the member's class is used validly in a container that does declare it
    home = ofxgen.container_of(M)
    if home is not None and home[0] is not K:
        ha, hk = ofxgen.base_instance(home[0])
        constructs(home[0], list(ha) + [ofxgen.build(M, ma, mk)], hk)
    allowed = mname.lower() in K.listaggregates
    ok = constructs(K, list(args) + [member], kwargs)
    ctx.check("list member of an undeclared class is rejected", ctx.implies(not allowed, not ok))
    if not has_custom_validation(K):
        ctx.check("list member of a declared class is accepted", ctx.implies(allowed, ok))
    kw2 = dict(kwargs)
    kw2[mname.lower()] = member
    if mname.lower() not in K.spec_no_listaggregates:
        ctx.check("passing a list member or an undeclared child as keyword is rejected", not constructs(K, args, kw2))


HARNESSES = dict(mutex=h_mutex, required=h_required, limits=h_limits, sequence=h_sequence, listmember=h_listmember)

META = dict(
    bounds=dict(deviations="one constraint at a time; all presence combinations within each exclusivity group",
                strings="declared length and length+1 symbolic characters over [a-z0-9]", integers="10^n-3..10^n+3 and n+1 digit texts",
                enumerations="foreign tokens of 1..min(maxlen,3)+1 characters over [A-Z0-9 ]",
                sequence="one swap / duplication / move of a child of the (enriched) base document",
                listmembers="member class symbolic over the declared member classes + 6 foreign classes"),
    models=["class instantiation through the instrumented Aggregate.__init__/validate_args/_apply_args", "Element.__set__ descriptors",
            "singledispatchmethod dispatch", "functools.reduce over update_args", "saxutils.unescape"],
    assumptions=["reference validator: union of exclusivity groups over the MRO, required flags, declared order, declared member classes",
                 "classes overriding validate_args/__init__ are only required to reject violations (their extra rules are not modelled as 'must accept')"],
)


def instances(tier, seed):
    import random
    rnd = random.Random(seed)
    out = []
    full = tier != "quick"

    def mk(name, h, params, **opts):
        opts.setdefault("wall_s", 120 if not full else 600)
        out.append(dict(name=name, harness=h, fn=HARNESSES[h], params=params, opts=opts))
    classes = ofxgen.pick_classes(tier, seed)
    allnames = [c.__name__ for c in ofxgen.all_classes()]
    for K in classes:
        n = K.__name__
        for kind in ("optionalMutexes", "requiredMutexes"):
            for gi, g in enumerate(ofxgen.all_mutexes(K, kind)):
                if len(g) <= 6 and all(m in K.spec_no_listaggregates for m in g):
                    mk(f"mutex[{n},{kind[:3]},{gi}]", "mutex", dict(cls=n, kind=kind, gi=gi))
        if any(isinstance(c, Types.Element) and getattr(c, "required", False) for c in K.spec_no_listaggregates.values()):
            mk(f"required[{n}]", "required", dict(cls=n))
        if _limit_attrs(K):
            mk(f"limits[{n}]", "limits", dict(cls=n), max_paths=4000)
            if n in ("STMTTRN", "SONRQ", "BANKACCTFROM", "INVBUY") or (full and ofxgen.is_core(K)):
                mk(f"limits[{n},history=300]", "limits", dict(cls=n, history=300), max_paths=4000, wall_s=300 if not full else 900)
        if len(K.spec) >= 1:
            mk(f"sequence[{n}]", "sequence", dict(cls=n), max_paths=3000)
        if K.listaggregates and not issubclass(K, ofxgen.ElementList):
            own = [v.__type__.__name__ for v in K.listaggregates.values()]
            foreign = rnd.sample([x for x in allnames if x not in own and x != n], 6)
            mk(f"listmember[{n}]", "listmember", dict(cls=n, classes=own[:6] + foreign))
    return out
